"""Grammar-directed generator of calc sessions (lists of top-level statements).

Programs are mostly well-typed and always terminating: while loops count a
dedicated counter up to a small bound, recursive functions carry a depth
argument.  Scopes are tracked so that most variable reads are defined.  A
separate 'wild' probability injects ill-typed or undefined operands so that
every runtime error class is exercised.  All choices come from one
random.Random, so a seed reproduces a session exactly."""
import random

KEYWORDS = {"if", "else", "while", "for", "return", "yield", "true", "false"}
BUILTINS = {"read", "write", "aton", "toa", "exit", "fromto", "elems", "indices"}
NAMES = ["a", "b", "c", "d", "e", "x", "y", "z", "n", "m", "p", "q", "r", "s", "t", "u", "v", "w", "k", "acc", "tmp", "cnt", "lst"]
FNAMES = ["f", "g", "h", "ff", "gg", "hh", "mk", "gen", "it", "rec", "fun", "op"]

ARITH = ["+", "-", "*", "/", "%"]
REL = ["<", ">", "<=", ">=", "==", "!="]
BITS = ["&", "|", "<<", ">>"]
BOOLOPS = ["&", "|", "&&", "||"]


class Scope:
    def __init__(self, kind, parent=None):
        self.kind = kind          # 'global' or 'func'
        self.parent = parent
        self.vars = {}            # name -> type tag
        self.loop_counters = set()


class ProgGen:
    def __init__(self, seed, profile="general"):
        self.r = random.Random(seed)
        self.profile = profile
        self.glob = Scope("global")
        self.funcs = {}           # global function name -> (arity, kind) kind: 'pure'|'gen'|'rec'|'clos'
        self.depth_budget = 0
        self.wild = {"general": 0.04, "adversarial": 0.3, "pure": 0.0, "generators": 0.02,
                     "scoping": 0.02, "errors": 0.15}.get(profile, 0.04)
        self.allow_io = profile not in ("pure",)
        self.uid = 0

    # ------------------------------------------------------------------ utils
    def fresh(self, pool, scope):
        for _ in range(20):
            n = self.r.choice(pool)
            if n not in scope.vars and n not in BUILTINS and n not in KEYWORDS and n not in self.funcs:
                return n
        self.uid += 1
        letters = "abcdefghij"
        s = ""
        k = self.uid
        while True:
            s = letters[k % 10] + s
            k //= 10
            if k == 0:
                break
        return "v" + s

    def chance(self, p):
        return self.r.random() < p

    def visible(self, scope, typ=None):
        """names readable from scope: own, enclosing function's (closure), globals"""
        res = []
        seen = set()
        s = scope
        hops = 0
        while s is not None:
            if s.kind == "global" or hops <= 1:
                for n, t in s.vars.items():
                    if n not in seen and (typ is None or t == typ):
                        res.append(n)
                        seen.add(n)
                    seen.add(n)
            else:
                for n in s.vars:
                    seen.add(n)   # shadowed from globals? no: two levels up is invisible, global of same name visible
            if s.kind == "func":
                hops += 1
            s = s.parent
        return res

    # ------------------------------------------------------------ expressions
    def int_lit(self):
        c = self.r.random()
        if c < 0.7:
            return str(self.r.randint(0, 12))
        if c < 0.9:
            return str(self.r.choice([100, 255, 1000, 65536, 2147483647, 4294967296]))
        return str(self.r.choice([9223372036854775807, 4611686018427387904, 9007199254740993]))

    def float_lit(self):
        return self.r.choice(["0.5", "1.5", "2.0", "0.25", "3.75", "10.0", "0.1", "100.125", "1.0"])

    def str_lit(self):
        n = self.r.choice([0, 1, 1, 2, 3, 5])
        body = "".join(self.r.choice("abcxyz 01_") for _ in range(n))
        if self.chance(0.08):
            body += '\\"'
        return '"' + body + '"'

    def expr(self, scope, typ, depth):
        """an expression that mostly evaluates to a value of type typ"""
        r = self.r
        if self.chance(self.wild):
            typ = r.choice(["int", "float", "bool", "str", "arr", "nil", "fun"])
        if typ == "nil":
            return self.fresh(["undefd", "nosuch", "nilone", "niltwo"], self.glob)
        if typ == "fun":
            fs = [f for f in self.funcs]
            return r.choice(fs) if fs else "toa"
        vs = self.visible(scope, typ)
        if depth <= 0 or self.chance(0.25):
            if vs and self.chance(0.6):
                return r.choice(vs)
            return self.literal(scope, typ, depth)
        c = r.random()
        if typ == "int":
            if c < 0.45:
                op = r.choice(["+", "+", "-", "*", "*", "/", "%", "&", "|", "<<", ">>"])
                a = self.expr(scope, "int", depth - 1)
                b = self.expr(scope, "int", depth - 1)
                if op in ("/", "%") and self.chance(0.55):
                    b = str(r.randint(1, 9))
                if op in ("<<", ">>") and self.chance(0.8):
                    b = str(r.randint(0, 8))
                if self.chance(0.12):
                    b = a       # same-operand shortcut
                return self.paren("%s %s %s" % (a, op, b))
            if c < 0.55:
                return "%s%s" % (r.choice(["-", "~"]), self.atomize(self.expr(scope, "int", depth - 1)))
            if c < 0.65:
                return "#%s" % self.atomize(self.expr(scope, r.choice(["str", "arr"]), depth - 1))
            if c < 0.75:
                arr = self.expr(scope, "arr", depth - 1)
                return "%s[%s]" % (self.atomize(arr), self.small_index(scope, depth))
            if c < 0.9:
                call = self.call_expr(scope, "int", depth)
                if call:
                    return call
            return self.literal(scope, typ, depth)
        if typ == "float":
            if c < 0.6:
                op = r.choice(["+", "-", "*", "/"])
                a = self.expr(scope, r.choice(["float", "float", "int"]), depth - 1)
                b = self.expr(scope, "float", depth - 1)
                if self.chance(0.5):
                    a, b = b, a
                return self.paren("%s %s %s" % (a, op, b))
            return self.literal(scope, typ, depth)
        if typ == "bool":
            if c < 0.45:
                op = r.choice(REL)
                t = r.choice(["int", "int", "float"]) if op not in ("==", "!=") else r.choice(["int", "str", "bool", "arr", "float"])
                return self.paren("%s %s %s" % (self.expr(scope, t, depth - 1), op, self.expr(scope, t, depth - 1)))
            if c < 0.7:
                op = r.choice(BOOLOPS)
                return self.paren("%s %s %s" % (self.expr(scope, "bool", depth - 1), op, self.expr(scope, "bool", depth - 1)))
            if c < 0.85:
                return "!%s" % self.atomize(self.expr(scope, "bool", depth - 1))
            return self.literal(scope, typ, depth)
        if typ == "str":
            if c < 0.4:
                return self.paren("%s + %s" % (self.expr(scope, "str", depth - 1), self.expr(scope, "str", depth - 1)))
            if c < 0.55:
                return "toa(%s)" % self.expr(scope, r.choice(["int", "bool", "str", "arr"]), depth - 1)
            if c < 0.7:
                s = self.atomize(self.expr(scope, "str", depth - 1))
                return "%s[%s:%s]" % (s, r.choice(["0", "0", "1"]), r.choice(["0", "1", "#" + s]))
            if c < 0.8:
                s = self.atomize(self.expr(scope, "str", depth - 1))
                return "%s[%s]" % (s, self.small_index(scope, depth))
            return self.literal(scope, typ, depth)
        if typ == "arr":
            if c < 0.35:
                return self.paren("%s + %s" % (self.expr(scope, "arr", depth - 1), self.expr(scope, "arr", depth - 1)))
            if c < 0.5:
                s = self.atomize(self.expr(scope, "arr", depth - 1))
                return "%s[%s:%s]" % (s, r.choice(["0", "0", "1"]), r.choice(["1", "#" + s, "#" + s]))
            return self.literal(scope, typ, depth)
        return self.literal(scope, "int", depth)

    def small_index(self, scope, depth):
        c = self.r.random()
        if c < 0.5:
            return str(self.r.randint(0, 2))
        if c < 0.75:
            call = self.call_expr(scope, "int", depth)
            if call:
                return call
        return self.expr(scope, "int", max(min(depth - 1, 2), 0))

    def literal(self, scope, typ, depth):
        r = self.r
        if typ == "int":
            return self.int_lit()
        if typ == "float":
            return self.float_lit()
        if typ == "bool":
            return r.choice(["true", "false"])
        if typ == "str":
            return self.str_lit()
        if typ == "arr":
            n = r.choice([0, 1, 2, 3, 3, 4])
            et = r.choice(["int", "int", "str", "bool", "float", "arr"]) if depth > 0 else "int"
            elems = []
            for _ in range(n):
                if depth > 0 and self.chance(0.4):
                    elems.append(self.expr(scope, et, depth - 1))
                else:
                    elems.append(self.literal(scope, et if et != "arr" else "int", 0))
            return "[" + ", ".join(elems) + "]"
        return "0"

    def paren(self, e):
        return "(" + e + ")" if self.chance(0.75) else e

    def atomize(self, e):
        """make e safe as operand of a tighter-binding construct"""
        if e and (e[0] == "(" and e[-1] == ")" and self.balanced(e)) or e.isalnum():
            return e
        if e and e[0] in '"[' and self.single_atom(e):
            return e
        return "(" + e + ")"

    @staticmethod
    def balanced(e):
        d = 0
        for i, ch in enumerate(e):
            if ch == "(":
                d += 1
            elif ch == ")":
                d -= 1
                if d == 0 and i != len(e) - 1:
                    return False
        return d == 0

    @staticmethod
    def single_atom(e):
        # a lone string or array literal
        if e[0] == '"':
            i = 1
            while i < len(e):
                if e[i] == "\\":
                    i += 2
                    continue
                if e[i] == '"':
                    return i == len(e) - 1
                i += 1
            return False
        d = 0
        for i, ch in enumerate(e):
            if ch == "[":
                d += 1
            elif ch == "]":
                d -= 1
                if d == 0:
                    return i == len(e) - 1
        return False

    def call_expr(self, scope, typ, depth):
        cands = [(n, a, k) for n, (a, k, rt) in self.funcs.items() if rt == typ and k != "gen"]
        if not cands:
            return None
        n, arity, kind = self.r.choice(cands)
        args = []
        for i in range(arity):
            if kind == "rec" and i == 0:
                args.append(str(self.r.randint(0, 5)))
            else:
                args.append(self.expr(scope, "int", min(depth - 1, 1)))
        if self.chance(self.wild):
            args = args[:-1] if args else ["1"]
        return "%s(%s)" % (n, ", ".join(args))

    # -------------------------------------------------------------- statements
    def body(self, stmts, force_braces=False):
        """format a list of statements as a body"""
        if len(stmts) == 1 and not force_braces and self.chance(0.5):
            s = stmts[0]
            first = s.lstrip()[:1]
            if first not in "([-{" and "\n" not in s and not s.startswith("if "):
                return s
        return "{\n" + "\n".join(stmts) + "\n}"

    def assign_stmt(self, scope, depth, in_func):
        typ = self.r.choice(["int", "int", "int", "str", "arr", "bool", "float"])
        vs = [n for n, t in scope.vars.items() if t == typ and n not in scope.loop_counters]
        if vs and self.chance(0.5):
            name = self.r.choice(vs)
            if typ == "int" and self.chance(0.4):
                form = self.r.choice(["%s = %s + 1", "%s = 1 + %s", "%s = %s + 2", "%s = %s * 2", "%s = %s - 1"])
                return form % (name, name)
        else:
            name = self.fresh(NAMES, scope)
        e = self.expr(scope, typ, depth)
        scope.vars[name] = typ
        return "%s = %s" % (name, e)

    def shadow_update(self, scope):
        """x = x + 1 and friends where x is NOT (yet) this function's own variable: the
        right-hand side reads the captured or global x, the assignment creates a local"""
        if scope.kind != "func":
            return None
        outer = [n for n in self.visible(scope, "int") if n not in scope.vars]
        if not outer:
            return None
        x = self.r.choice(outer)
        scope.vars[x] = "int"
        return self.r.choice(["%s = %s + 1", "%s = 1 + %s", "%s = %s * 2", "%s = %s - 1", "%s = %s + 10"]) % (x, x)

    def multi_call(self, scope):
        """several calls inside one expression: they share one Run, its context free list and stack"""
        fs = [(n, a, k, rt) for n, (a, k, rt) in self.funcs.items() if k != "gen" and rt in ("int", "str", "arr", "bool")]
        if not fs:
            return None
        parts = []
        for _ in range(self.r.randint(2, 4)):
            n, a, k, rt = self.r.choice(fs)
            args = [str(self.r.randint(0, 5)) for _ in range(a)]
            parts.append("%s(%s)" % (n, ", ".join(args)))
        if self.chance(0.6):
            return "[" + ", ".join(parts) + "]"
        ints = [p for p in parts if self.funcs[p.split("(")[0]][2] == "int"]
        if len(ints) >= 2:
            return " + ".join(ints)
        return "[" + ", ".join(parts) + "]"

    def cond(self, scope, depth):
        c = self.expr(scope, "bool", depth)
        return c

    def if_stmt(self, scope, depth, ctx):
        if scope.kind == "func" and self.chance(0.15):
            # a local that is assigned only on one path and read afterwards
            v = self.fresh(NAMES, scope)
            scope.vars[v] = "int"
            return ["if %s %s = %s" % (self.cond(scope, 1), v, self.expr(scope, "int", 1)), v]
        c = self.cond(scope, min(depth, 2))
        t = self.stmt_list(scope, depth - 1, ctx, self.r.randint(1, 2))
        if self.chance(0.5):
            f = self.stmt_list(scope, depth - 1, ctx, self.r.randint(1, 2))
            return "if %s %s else %s" % (c, self.body(t, True), self.body(f))
        return "if %s %s" % (c, self.body(t))

    def while_stmt(self, scope, depth, ctx):
        cnt = self.fresh(["i", "j", "k", "ii", "jj", "kk", "w"], scope)
        scope.vars[cnt] = "int"
        scope.loop_counters.add(cnt)
        bound = self.r.randint(0, 4)
        inner = self.stmt_list(scope, depth - 1, ctx, self.r.randint(0, 2))
        tail = "%s = %s + 1" % (cnt, cnt)
        if self.chance(0.5):
            stmts = inner + [tail]
        else:
            # counter bumped first, body value last
            stmts = [tail] + (inner if inner else [self.expr(scope, "int", 1)])
        cond = "%s < %s" % (cnt, bound)
        if self.chance(0.2):
            cond = "!(%s >= %s)" % (cnt, bound)
        return ["%s = 0" % cnt, "while %s %s" % (cond, self.body(stmts, True))]

    def iter_expr(self, scope, depth):
        c = self.r.random()
        gens = [(n, a) for n, (a, k, rt) in self.funcs.items() if k == "gen"]
        if gens and c < 0.4:
            n, a = self.r.choice(gens)
            return "%s(%s)" % (n, ", ".join(str(self.r.randint(0, 4)) for _ in range(a)))
        if c < 0.7:
            return "fromto(%s, %s)" % (self.r.randint(0, 3), self.r.randint(0, 6))
        if c < 0.85:
            return "elems(%s)" % self.expr(scope, self.r.choice(["arr", "str"]), 1)
        return "indices(%s)" % self.expr(scope, self.r.choice(["arr", "str"]), 1)

    def for_stmt(self, scope, depth, ctx):
        n = 1 if self.chance(0.75) else 2
        vars_ = []
        for _ in range(n):
            v = self.fresh(["i", "j", "e", "el", "ix", "it"], scope)
            scope.vars[v] = "int"
            scope.loop_counters.add(v)
            vars_.append(v)
        iters = [self.iter_expr(scope, depth) for _ in range(n)]
        inner = self.stmt_list(scope, depth - 1, dict(ctx, in_for=True), self.r.randint(1, 2))
        return "for %s <- %s %s" % (", ".join(vars_), ", ".join(iters), self.body(inner))

    def stmt_list(self, scope, depth, ctx, n):
        out = []
        for _ in range(n):
            s = self.stmt(scope, depth, ctx)
            if isinstance(s, list):
                out.extend(s)
            else:
                out.append(s)
        return out

    def stmt(self, scope, depth, ctx):
        r = self.r
        c = r.random()
        if depth <= 0:
            c = c * 0.45
        if c < 0.26:
            return self.assign_stmt(scope, min(depth, 3), ctx.get("in_func"))
        if c < 0.30:
            s2 = self.shadow_update(scope)
            if s2:
                return s2
        if c < 0.34:
            m = self.multi_call(scope)
            if m:
                return m
        if c < 0.4:
            return self.expr(scope, r.choice(["int", "int", "str", "arr", "bool", "float"]), min(depth, 3))
        if c < 0.45 and self.allow_io:
            return "write(%s)" % self.expr(scope, r.choice(["int", "str", "bool", "arr"]), 1)
        if c < 0.58:
            return self.if_stmt(scope, depth, ctx)
        if c < 0.70:
            return self.while_stmt(scope, depth, ctx)
        if c < 0.82:
            return self.for_stmt(scope, depth, ctx)
        if c < 0.88 and (ctx.get("in_func") or self.chance(0.15)):
            return "return %s" % self.expr(scope, ctx.get("ret", "int"), 2)
        if c < 0.93 and ctx.get("gen"):
            return "yield %s" % self.expr(scope, "int", 2)
        if c < 0.96 and ctx.get("in_func") and self.profile != "pure-noclos":
            # a local closure used at once
            name = self.fresh(FNAMES, scope)
            inner = Scope("func", scope)
            inner.vars["q"] = "int"
            e = self.expr(inner, "int", 2)
            scope.vars[name] = "fun"
            res = self.fresh(NAMES, scope)
            scope.vars[res] = "int"
            return ["%s = (q) -> %s" % (name, e), "%s = %s(%s)" % (res, name, self.expr(scope, "int", 1))]
        return self.assign_stmt(scope, min(depth, 3), ctx.get("in_func"))

    # -------------------------------------------------------------- functions
    def func_def(self):
        r = self.r
        name = self.fresh(FNAMES, self.glob)
        kind = r.choice(["pure", "pure", "rec", "gen", "clos"] if self.profile != "generators" else ["gen", "gen", "pure", "rec"])
        arity = r.randint(0, 2) if kind != "rec" else r.randint(1, 2)
        scope = Scope("func", self.glob)
        params = []
        for i in range(arity):
            p = self.fresh(NAMES, scope)
            scope.vars[p] = "int"
            params.append(p)
        rt = r.choice(["int", "int", "int", "str", "arr", "bool"]) if kind in ("pure", "rec") else "int"
        ctx = {"in_func": True, "ret": rt, "gen": kind == "gen"}
        stmts = []
        if kind == "rec":
            n = params[0]
            scope.loop_counters.add(n)
            base = self.expr(scope, rt, 1)
            stmts.append("if %s <= 0 return %s" % (n, base))
            stmts += self.stmt_list(scope, 2, ctx, r.randint(0, 2))
            self.funcs[name] = (arity, kind, rt)   # recursion allowed from here
            rest = [str(r.randint(0, 3)) for _ in params[1:]]
            recur = "%s(%s)" % (name, ", ".join(["%s - 1" % n] + rest))
            if rt == "int":
                stmts.append(r.choice(["%s + %s" % (n, recur), "%s + %s" % (recur, n), "1 + %s * 2" % recur, recur]))
            elif rt == "str":
                stmts.append("toa(%s) + %s" % (n, recur))
            elif rt == "arr":
                stmts.append("[%s] + %s" % (n, recur))
            else:
                stmts.append("!%s" % recur)
        elif kind == "gen":
            stmts += self.stmt_list(scope, 2, ctx, r.randint(1, 3))
            if not any("yield" in s for s in stmts):
                stmts.append("yield %s" % self.expr(scope, "int", 1))
            rt = "int"
        elif kind == "clos":
            # returns a closure over its locals: directly returned, so its frame is copied
            stmts += self.stmt_list(scope, 1, ctx, r.randint(0, 2))
            loc = self.fresh(NAMES, scope)
            scope.vars[loc] = "int"
            stmts.append("%s = %s" % (loc, self.expr(scope, "int", 1)))
            inner = Scope("func", scope)
            iar = r.randint(0, 1)
            ips = []
            for _ in range(iar):
                # parameter names that often shadow an outer name
                cands = list(scope.vars) + list(self.glob.vars) if self.chance(0.4) else []
                cands = [c for c in cands if c not in BUILTINS and c not in self.funcs]
                ip = r.choice(cands) if cands else self.fresh(NAMES, inner)
                inner.vars[ip] = "int"
                ips.append(ip)
            ictx = {"in_func": True, "ret": "int", "gen": False}
            form = r.random()
            if form < 0.35:
                ibody = self.expr(inner, "int", 2)
            elif form < 0.75:
                # a closure that loops over something its captured variables determine
                acc = self.fresh(["s", "acc", "t", "u"], inner)
                inner.vars[acc] = "int"
                lv = self.fresh(["i", "j", "e"], inner)
                cap = [n for n in scope.vars if scope.vars[n] == "int"]
                hi = r.choice(cap) if cap else "3"
                inner.vars[lv] = "int"
                inner.loop_counters.add(lv)
                it = r.choice(["fromto(0, %s)" % hi, "fromto(%s, %s + 3)" % (hi, hi), "elems([%s, 1, 2])" % hi])
                ist = ["%s = 0" % acc, "for %s <- %s %s = %s + %s" % (lv, it, acc, acc, lv)]
                ist += self.stmt_list(inner, 1, ictx, r.randint(0, 1))
                ist.append(acc)
                ibody = "{\n" + "\n".join(ist) + "\n}"
            else:
                ist = self.stmt_list(inner, 2, ictx, r.randint(1, 2))
                ist.append(self.expr(inner, "int", 2))
                ibody = "{\n" + "\n".join(ist) + "\n}"
            stmts.append("(%s) -> %s" % (", ".join(ips), ibody))
            rt = "fun%d" % iar
        else:
            stmts += self.stmt_list(scope, 3, ctx, r.randint(1, 3))
            stmts.append(self.expr(scope, rt, 2) if self.chance(0.7) else self.stmt(scope, 2, ctx) if True else "")
            stmts = [s for ss in stmts for s in (ss if isinstance(ss, list) else [ss])]
        self.funcs[name] = (arity, kind, rt)
        self.glob.vars[name] = "fun"
        body = self.body(stmts, len(stmts) > 1)
        return "%s = (%s) -> %s" % (name, ", ".join(params), body)

    def use_closure_maker(self):
        makers = [(n, a, rt) for n, (a, k, rt) in self.funcs.items() if k == "clos"]
        if not makers:
            return None
        n, a, rt = self.r.choice(makers)
        cname = self.fresh(FNAMES, self.glob)
        self.funcs[cname] = (int(rt[3:]) if rt.startswith("fun") else 1, "pure", "int")
        self.glob.vars[cname] = "fun"
        return "%s = %s(%s)" % (cname, n, ", ".join(str(self.r.randint(0, 5)) for _ in range(a)))

    # ---------------------------------------------------------------- sessions
    def session(self, n_stmts):
        out = []
        ctx = {"in_func": False}
        while len(out) < n_stmts:
            c = self.r.random()
            if c < 0.3:
                out.append(self.func_def())
            elif c < 0.38:
                s = self.use_closure_maker()
                if s:
                    out.append(s)
            else:
                s = self.stmt(self.glob, 3, ctx)
                if isinstance(s, list):
                    # several statements that belong together: one block or separate inputs
                    if self.chance(0.5):
                        out.append("{\n" + "\n".join(s) + "\n}")
                    else:
                        out.extend(s)
                else:
                    out.append(s)
        return out


def make_sessions(seed, count, profile="general", lo=3, hi=10):
    r = random.Random(seed)
    res = []
    for i in range(count):
        g = ProgGen(r.getrandbits(48), profile)
        res.append(g.session(r.randint(lo, hi)))
    return res


if __name__ == "__main__":
    import sys
    for s in make_sessions(int(sys.argv[1]) if len(sys.argv) > 1 else 1, 3):
        print("\n---\n".join(s))
        print("=========")


def closure_loop_session(rng):
    """closure instances whose loops read captured variables in the iterator
    expression, several of them called within one statement (one Run: shared
    context free list), incl. loops abandoned by return"""
    s = []
    forms = [
        "mk%(n)s = (k) -> () -> {\ns = 0\nfor i <- fromto(0, k) s = s + i\ns\n}",
        "mk%(n)s = (k) -> () -> {\ns = 0\nfor e <- elems([k, k + 1, 7]) s = s + e\ns\n}",
        "mk%(n)s = (k) -> (m) -> {\ns = 0\nfor i, j <- fromto(0, k), fromto(m, m + 9) s = s + i * j\ns\n}",
        "mk%(n)s = (k) -> () -> {\nfor i <- fromto(0, 9) if i == k return i * 100\n0 - 1\n}",
        "mk%(n)s = (k) -> () -> {\ns = []\nfor i <- fromto(k, k + 2) {\nfor j <- fromto(0, k) s = s + [i + j]\n}\ns\n}",
        "mk%(n)s = (k) -> {\nbase = k * 10\n() -> {\nt = 0\nfor i <- fromto(base, base + k) t = t + i\nt\n}\n}",
    ]
    names = "abcd"
    makers = []
    for n in range(rng.randint(1, 3)):
        f = rng.choice(forms)
        s.append(f % {"n": names[n]})
        makers.append(("mk" + names[n], "(m)" in f))
    inst = []
    for n in range(rng.randint(2, 4)):
        mk, needs_arg = rng.choice(makers)
        nm = "c" + names[n]
        s.append("%s = %s(%d)" % (nm, mk, rng.randint(0, 6)))
        inst.append((nm, needs_arg))
    s.append("for q <- fromto(0, 3) q")
    for _ in range(rng.randint(2, 4)):
        calls = []
        for _ in range(rng.randint(2, 4)):
            nm, needs_arg = rng.choice(inst)
            calls.append("%s(%s)" % (nm, str(rng.randint(0, 4)) if needs_arg else ""))
        shape = rng.random()
        if shape < 0.5:
            s.append("[" + ", ".join(calls) + "]")
        elif shape < 0.75:
            s.append("{\nfor q <- fromto(0, 2) q\n[" + ", ".join(calls) + "]\n}")
        else:
            s.append("toa(" + calls[0] + ") + \" \" + toa(" + calls[-1] + ")")
    return s
