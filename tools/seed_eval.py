#!/usr/bin/env python3
"""Run checks against the seeded changes: apply each patch to /repo, run the
quick check of its own property (or of the properties given with --checks),
undo the patch straight afterwards.  Usage:
   seed_eval.py [--checks C01,C05] [--tier quick] [names...]
Writes /verif/seeded/RESULTS.json (which check caught which change)."""
import argparse
import glob
import json
import os
import subprocess
import sys
import time

SEEDED = "/verif/seeded"


def sh(cmd, cwd="/verif", timeout=3600):
    p = subprocess.run(cmd, cwd=cwd, shell=True, stdout=subprocess.PIPE, stderr=subprocess.STDOUT, timeout=timeout)
    return p.returncode, p.stdout.decode(errors="replace")


def main():
    ap = argparse.ArgumentParser()
    ap.add_argument("--checks", default="")
    ap.add_argument("--tier", default="quick")
    ap.add_argument("names", nargs="*")
    a = ap.parse_args()
    rc, out = sh("git -C /repo status --porcelain")
    if out.strip():
        print("refusing: /repo has uncommitted changes\n" + out)
        sys.exit(1)
    respath = os.path.join(SEEDED, "RESULTS.json")
    results = json.load(open(respath)) if os.path.exists(respath) else {}
    manifest = json.load(open("/verif/MANIFEST.json"))
    claimed = {c["property_id"] for c in manifest["checks"]}
    for d in sorted(glob.glob(os.path.join(SEEDED, "C*-*"))):
        name = os.path.basename(d)
        if a.names and name not in a.names and name.split("-")[0] not in a.names:
            continue
        prop = name.split("-")[0]
        checks = [c for c in a.checks.split(",") if c] or [prop]
        rc, out = sh("git -C /repo apply %s/patch.diff" % d)
        if rc != 0:
            rc, out = sh("git -C /repo apply -3 %s/patch.diff" % d)
        if rc != 0:
            print(name, "PATCH DOES NOT APPLY", out[-300:])
            sh("git -C /repo checkout -- . ; git -C /repo reset -q")
            continue
        try:
            for chk in checks:
                if chk not in claimed:
                    print(name, chk, "not claimed yet")
                    continue
                t = time.time()
                rc, out = sh("./check %s --tier %s" % (chk, a.tier))
                viol = [l for l in out.splitlines() if l.startswith("VIOLATION")]
                caught = rc == 1 and bool(viol)
                results.setdefault(name, {})[chk] = {
                    "caught": caught, "exit": rc, "wall_s": round(time.time() - t, 1),
                    "lines": viol[:3], "with_input": any("no-failing-input-found" not in l for l in viol)}
                print(name, chk, "CAUGHT" if caught else "missed (exit %d)" % rc, "%.0fs" % (time.time() - t),
                      (viol[0] if viol else out[-300:].replace("\n", " | ")))
                sys.stdout.flush()
        finally:
            sh("git -C /repo checkout -- . ; git -C /repo reset -q")
    json.dump(results, open(respath, "w"), indent=1, sort_keys=True)
    rc, out = sh("git -C /repo status --porcelain")
    if out.strip():
        print("WARNING: /repo not clean after evaluation:\n" + out)


if __name__ == "__main__":
    main()
