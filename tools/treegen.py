"""Syntax trees for C07: generation, the documented-rules printer (mirror of
coq/Printer.v, compared with it on every run), layouts, Coq terms."""
import random
import struct
from decimal import Decimal

KEYWORDS = ["if", "else", "while", "for", "return", "yield", "true", "false"]
LEVELS = [["&&", "||"], ["==", "!=", "<=", ">=", "<", ">"], ["&", "|"], ["+", "-"], ["*", "/", "%", "<<", ">>"]]
BINOPS = [op for l in LEVELS for op in l]
UNOPS = ["-", "#", "!", "~"]
STICKY = set("+*/=<>!-&|#%~")


def op_level(op):
    for i, l in enumerate(LEVELS):
        if op in l:
            return i + 1
    raise ValueError(op)


def level(t):
    k = t[0]
    if k == "Function":
        return 0
    if k == "Bin":
        return op_level(t[1])
    if k == "Un":
        return 6
    if k in ("IndexAt", "IndexFromTo"):
        return 7
    return 8


def fmt_pos(f):
    if f == 0:
        return "0.0"
    s = format(Decimal(repr(f)), "f")
    return s if "." in s else s + ".0"


def quote(s):
    return '"' + s.replace('"', '\\"') + '"'


# tokens are (kind, text); kind: w word (name, keyword, number), s sticky, n non-sticky, q string, l newline
NL = ("l", "\n")


def sep_by(sep, parts):
    out = []
    for i, p in enumerate(parts):
        if i:
            out += sep
        out += p
    return out


def braces(stmts):
    return [("n", "{"), NL] + sep_by([NL], stmts) + [NL, ("n", "}")]


def starts_ambiguous(p):
    return bool(p) and p[0][1] in ("-", "(", "[")


def ends_open_if(t):
    k = t[0]
    if k == "If":
        return True
    if k == "IfElse":
        return ends_open_if(t[3])
    if k in ("While",):
        return ends_open_if(t[2])
    if k == "For":
        return ends_open_if(t[3])
    if k == "Assign" and t[2][0] == "Function":
        return ends_open_if(t[2][2])
    if k in ("Return", "Yield") and t[1][0] == "Function":
        return ends_open_if(t[1][2])
    if k == "Function":
        return ends_open_if(t[2])
    return False


class Printer:
    """rng None: the canonical printer.  With an rng: redundant parentheses and
    redundant braces are added at random (the tree must not change)."""

    def __init__(self, rng=None, paren_p=0.0, brace_p=0.0):
        self.rng = rng
        self.paren_p = paren_p
        self.brace_p = brace_p

    def at(self, m, e):
        p = self.pp(e)
        if level(e) < m:
            return [("n", "(")] + p + [("n", ")")]
        return p

    def extra(self, e, p):
        # redundant parentheses around an expression in operand position
        if self.rng and self.rng.random() < self.paren_p:
            n = 1 if self.rng.random() < 0.8 else 2
            return [("n", "(")] * n + p + [("n", ")")] * n
        return p

    def body(self, guarded, must_close, b):
        if b[0] == "Block":
            return braces([self.pp(s) for s in b[1]])
        p = self.pp(b)
        if (guarded and starts_ambiguous(p)) or (must_close and ends_open_if(b)):
            return braces([p])
        if self.rng and self.rng.random() < self.brace_p:
            return braces([p])
        return p

    def pp(self, t):
        k = t[0]
        at = lambda m, e: self.extra(e, self.at(m, e)) if is_expr(e) else self.at(m, e)
        if k == "Int":
            return [("w", str(t[1]))]
        if k == "Float":
            return [("w", fmt_pos(t[1]))]
        if k == "Str":
            return [("q", quote(t[1]))]
        if k == "Bool":
            return [("w", "true" if t[1] else "false")]
        if k == "Name":
            return [("w", t[1])]
        if k == "Bin":
            lv = op_level(t[1])
            return at(lv, t[2]) + [("s", t[1])] + at(lv + 1, t[3])
        if k == "Un":
            return [("s", t[1])] + at(7, t[2])
        if k == "IndexAt":
            return at(7, t[1]) + [("n", "[")] + at(1, t[2]) + [("n", "]")]
        if k == "IndexFromTo":
            return at(7, t[1]) + [("n", "[")] + at(1, t[2]) + [("n", ":")] + at(1, t[3]) + [("n", "]")]
        if k == "List":
            return [("n", "[", "brk")] + sep_by([("n", ",", "brk")], [at(1, e) for e in t[1]]) + [("n", "]")]
        if k == "Call":
            return [("w", t[1][1]), ("n", "(")] + sep_by([("n", ",")], [at(1, e) for e in t[2]]) + [("n", ")")]
        if k == "Function":
            return ([("n", "(")] + sep_by([("n", ",")], [[("w", p[1])] for p in t[1]]) + [("n", ")"), ("s", "->")]
                    + self.body(False, False, t[2]))
        if k == "If":
            return [("w", "if")] + at(1, t[1]) + self.body(True, False, t[2])
        if k == "IfElse":
            return ([("w", "if")] + at(1, t[1]) + self.body(True, True, t[2]) + [("w", "else")]
                    + self.body(False, False, t[3]))
        if k == "While":
            return [("w", "while")] + at(1, t[1]) + self.body(True, False, t[2])
        if k == "For":
            return ([("w", "for")] + sep_by([("n", ",")], [[("w", v[1])] for v in t[1]]) + [("s", "<-")]
                    + sep_by([("n", ",")], [at(1, e) for e in t[2]]) + self.body(True, False, t[3]))
        if k == "Return":
            return [("w", "return")] + self.pp(t[1])
        if k == "Yield":
            return [("w", "yield")] + self.pp(t[1])
        if k == "Assign":
            return [("w", t[1][1]), ("s", "=")] + self.pp(t[2])
        if k == "Block":
            return braces([self.pp(s) for s in t[1]])
        raise ValueError(k)


def is_expr(t):
    return t[0] in ("Int", "Float", "Str", "Bool", "Name", "Bin", "Un", "IndexAt", "IndexFromTo", "List", "Call", "Function")


def render_canonical(toks):
    return " ".join(t[1] for t in toks)


def needs_gap(a, b):
    """must two adjacent tokens be separated by white space to stay two tokens"""
    if a[0] == "w" and b[0] == "w":
        return True
    if a[0] == "s" and b[0] == "s":
        return True
    return False


COMMENT_CHARS = "abc xyz 0 { } [ ] ( ) \" ; , : -> <- if else + - * / \\ \t \xc3\xa9 #"


def render_layout(toks, rng, style):
    """style: dict with gap ('min' | 'wide' | 'one'), blank (probability of extra blank lines where the
    grammar allows them), comment (probability of a comment before a line end), tail ('' | '\\n' | ...)"""
    out = []

    def gap():
        g = style["gap"]
        if g == "one":
            return " "
        if g == "min":
            return ""
        return rng.choice(["", " ", "  ", "\t", " \t ", "    "])

    def comment():
        n = rng.randint(0, 12)
        return ";" + "".join(rng.choice(COMMENT_CHARS) for _ in range(n))

    def newline():
        s = ""
        if rng.random() < style["comment"]:
            s += gap() + comment()
        s += "\n"
        while rng.random() < style["blank"]:
            s += gap()
            if rng.random() < style["comment"]:
                s += comment()
            s += "\n"
        return s

    for i, t in enumerate(toks):
        if t[0] == "l":
            out.append(newline())
            continue
        if i > 0 and toks[i - 1][0] != "l":
            g = gap()
            if g == "" and needs_gap(toks[i - 1], t):
                g = " "
            out.append(g)
        elif i > 0:
            out.append(gap())
        out.append(t[1])
        if len(t) > 2 and rng.random() < style["blank"]:     # after '[' and ',' of an array literal
            out.append(newline())
    s = "".join(out)
    tail = style.get("tail", "")
    if tail == "comment":
        s += gap() + comment()
    elif tail == "nlcomment":
        s += "\n" + comment() + "\n"
    else:
        s += tail
    return s


# ---------- Coq terms ----------
def coq_str(s):
    b = s.encode("latin-1") if isinstance(s, str) else s
    if all(32 <= c <= 126 and c != 34 for c in b):
        return '"' + b.decode("latin-1") + '"'
    return "(sb [" + ";".join(str(c) for c in b) + "])"


def coq_float(f):
    bits = struct.unpack("<Q", struct.pack("<d", f))[0]
    return "(fb %d)" % bits


def coq_tree(t):
    k = t[0]
    L = lambda l: "[" + ";".join(coq_tree(x) for x in l) + "]"
    if k == "Int":
        return "(NInt %d)" % t[1]
    if k == "Float":
        return "(NFloat %s)" % coq_float(t[1])
    if k == "Str":
        return "(NStr %s)" % coq_str(t[1])
    if k == "Bool":
        return "(NBool %s)" % ("true" if t[1] else "false")
    if k == "Name":
        return "(NName %s)" % coq_str(t[1])
    if k == "Bin":
        return "(NBin %s %s %s)" % (coq_str(t[1]), coq_tree(t[2]), coq_tree(t[3]))
    if k == "Un":
        return "(NUn %s %s)" % (coq_str(t[1]), coq_tree(t[2]))
    if k == "IndexAt":
        return "(NIndexAt %s %s)" % (coq_tree(t[1]), coq_tree(t[2]))
    if k == "IndexFromTo":
        return "(NIndexFromTo %s %s %s)" % (coq_tree(t[1]), coq_tree(t[2]), coq_tree(t[3]))
    if k == "List":
        return "(NList %s)" % L(t[1])
    if k == "Call":
        return "(NCall %s %s)" % (coq_tree(t[1]), L(t[2]))
    if k == "Function":
        return "(NFunction %s %s 0)" % (L(t[1]), coq_tree(t[2]))
    if k == "If":
        return "(NIf %s %s)" % (coq_tree(t[1]), coq_tree(t[2]))
    if k == "IfElse":
        return "(NIfElse %s %s %s)" % (coq_tree(t[1]), coq_tree(t[2]), coq_tree(t[3]))
    if k == "While":
        return "(NWhile %s %s)" % (coq_tree(t[1]), coq_tree(t[2]))
    if k == "For":
        return "(NFor %s %s %s)" % (L(t[1]), L(t[2]), coq_tree(t[3]))
    if k == "Return":
        return "(NReturn %s)" % coq_tree(t[1])
    if k == "Yield":
        return "(NYield %s)" % coq_tree(t[1])
    if k == "Assign":
        return "(NAssign %s %s)" % (coq_tree(t[1]), coq_tree(t[2]))
    if k == "Block":
        return "(NBlock %s)" % L(t[1])
    raise ValueError(k)


# ---------- generation ----------
NAMES = ["a", "b", "c", "x", "y", "f", "g", "n", "it", "acc", "elsea", "ifx", "truey", "fora"]


class TreeGen:
    def __init__(self, seed):
        self.rng = random.Random(seed)

    def name(self):
        return ("Name", self.rng.choice(NAMES))

    def atom(self):
        r = self.rng
        c = r.random()
        if c < 0.3:
            return self.name()
        if c < 0.55:
            return ("Int", r.choice([0, 1, 2, 7, 10, 255, 1000000, 2 ** 31, 2 ** 63 - 1, r.randrange(0, 2 ** 63)]))
        if c < 0.7:
            return ("Float", r.choice([0.0, 0.5, 1.0, 1.5, 3.14159, 1e21, 1e-7, 123456789.125, 5e-324, 1.7976931348623157e308,
                                       r.random() * 10 ** r.randint(-20, 20), float(r.randrange(0, 2 ** 53))]))
        if c < 0.8:
            return ("Bool", r.random() < 0.5)
        return ("Str", r.choice(["", "a", "hello world", 'q"uo"te', "{", "}", "[", "; no comment", "line\nbreak", "tab\there",
                                  "if else", "é", "(", "->", ",", "'"]))

    def expr(self, d):
        r = self.rng
        if d <= 0 or r.random() < 0.15:
            return self.atom()
        c = r.random()
        if c < 0.45:
            return ("Bin", r.choice(BINOPS), self.expr(d - 1), self.expr(d - 1))
        if c < 0.58:
            return ("Un", r.choice(UNOPS), self.expr(d - 1))
        if c < 0.66:
            return ("IndexAt", self.expr(d - 1), self.expr(d - 1))
        if c < 0.72:
            return ("IndexFromTo", self.expr(d - 1), self.expr(d - 1), self.expr(d - 1))
        if c < 0.8:
            return ("List", [self.expr(d - 1) for _ in range(r.randint(0, 3))])
        if c < 0.9:
            return ("Call", self.name(), [self.expr(d - 1) for _ in range(r.randint(0, 3))])
        return ("Function", [self.name() for _ in range(r.randint(0, 3))], self.body(d - 1))

    def body(self, d):
        r = self.rng
        if r.random() < 0.35:
            return ("Block", [self.stmt(d) for _ in range(r.randint(2, 4))])
        return self.stmt(d)

    def stmt(self, d):
        r = self.rng
        c = r.random()
        if d <= 0 or c < 0.3:
            return self.expr(d)
        if c < 0.42:
            return ("Assign", self.name(), self.expr(d))
        if c < 0.52:
            return ("If", self.expr(d - 1), self.body(d - 1))
        if c < 0.64:
            return ("IfElse", self.expr(d - 1), self.body(d - 1), self.body(d - 1))
        if c < 0.72:
            return ("While", self.expr(d - 1), self.body(d - 1))
        if c < 0.82:
            n = r.randint(1, 3)
            return ("For", [self.name() for _ in range(n)], [self.expr(d - 1) for _ in range(n)], self.body(d - 1))
        if c < 0.91:
            return ("Return", self.expr(d))
        return ("Yield", self.expr(d))

    def top(self, d):
        return self.body(d)


def systematic():
    """every operator pair in both nestings, unary with every operator, both index forms under and over
    every operator, every statement form in every body position (one-line and braced)"""
    a, b, c = ("Name", "a"), ("Int", 2), ("Name", "c")
    out = []
    for o1 in BINOPS:
        for o2 in BINOPS:
            out.append(("Bin", o1, ("Bin", o2, a, b), c))
            out.append(("Bin", o1, a, ("Bin", o2, b, c)))
        for u in UNOPS:
            out.append(("Un", u, ("Bin", o1, a, b)))
            out.append(("Bin", o1, ("Un", u, a), b))
            out.append(("Bin", o1, a, ("Un", u, b)))
        out.append(("IndexAt", ("Bin", o1, a, b), c))
        out.append(("Bin", o1, ("IndexAt", a, b), c))
        out.append(("Bin", o1, a, ("IndexFromTo", a, b, c)))
        out.append(("IndexAt", a, ("Bin", o1, b, c)))
        out.append(("IndexFromTo", a, ("Bin", o1, b, c), ("Bin", o1, c, b)))
        out.append(("Bin", o1, ("Function", [a], a), b))
        out.append(("Bin", o1, a, ("Function", [a], a)))
        out.append(("Call", ("Name", "f"), [("Bin", o1, a, b), ("Bin", o1, b, c)]))
        out.append(("List", [("Bin", o1, a, b), ("Bin", o1, b, c)]))
    for u in UNOPS:
        for v in UNOPS:
            out.append(("Un", u, ("Un", v, a)))
        out.append(("Un", u, ("IndexAt", a, b)))
        out.append(("IndexAt", ("Un", u, a), b))
        out.append(("Un", u, ("Call", ("Name", "f"), [a])))
        out.append(("Un", u, ("Function", [], a)))
        out.append(("Un", u, ("List", [a])))
    out.append(("IndexAt", ("IndexAt", a, b), c))
    out.append(("IndexFromTo", ("IndexAt", a, b), b, c))
    out.append(("IndexAt", ("IndexFromTo", a, b, c), b))
    out.append(("IndexAt", ("List", [a, b]), b))
    out.append(("IndexAt", ("Call", ("Name", "f"), []), b))
    out.append(("IndexAt", ("Str", "abc"), b))
    out.append(("IndexAt", ("Function", [], a), b))
    # statement forms x body positions
    simple = [
        a, ("Un", "-", a), ("List", [a]), ("Bin", "+", ("Bin", "*", a, b), c), ("Assign", ("Name", "x"), b),
        ("Return", a), ("Yield", ("Un", "-", b)), ("If", a, b), ("IfElse", a, b, c), ("While", a, b),
        ("For", [("Name", "i")], [a], ("Name", "i")), ("Assign", ("Name", "g"), ("Function", [a], ("If", a, b))),
        ("Function", [], ("Block", [a, b])), ("Call", ("Name", "f"), [a]), ("Str", "s"),
        ("For", [("Name", "i"), ("Name", "j")], [a, ("List", [b])], ("Yield", ("Name", "i"))),
        ("Block", [a, b]), ("Block", [("If", a, b), ("Un", "-", c), ("List", [])]),
    ]
    for s in simple:
        out.append(s)
        out.append(("If", a, s))
        out.append(("IfElse", a, s, c))
        out.append(("IfElse", a, c, s))
        out.append(("IfElse", a, s, s))
        out.append(("While", a, s))
        out.append(("While", ("Un", "!", a), s))
        out.append(("For", [("Name", "i")], [("List", [a, b])], s))
        out.append(("Function", [a, ("Name", "b")], s))
        out.append(("Assign", ("Name", "h"), ("Function", [], s)))
        out.append(("Return", ("Function", [a], s)))
        if s[0] != "Block":
            out.append(("Block", [s, s]))
            out.append(("Block", [a, s, b]))
            out.append(("IfElse", a, ("If", b, s), s))
            out.append(("IfElse", a, ("While", b, ("If", c, s)), s))
            out.append(("IfElse", a, ("Assign", ("Name", "k"), ("Function", [], ("If", b, s))), c))
    return out
