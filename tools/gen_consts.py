#!/usr/bin/env python3
"""Translator for the table-like parts of /repo's source: writes coq/GenConsts.v
from what the source says now.  Exported constants come from the harness
(`consts`: the Go compiler's view), unexported ones and the operator tables are
read from the source text here.  coq/CheckConsts.v proves the model's own
constants equal to the generated ones, so a source edit to any of them breaks
the build of the Coq development."""
import os
import re
import sys

sys.path.insert(0, os.path.dirname(os.path.abspath(__file__)))
import vlib


def src(path):
    return open(os.path.join(vlib.REPO, path)).read()


def coq_str(s):
    return '"' + s.replace('"', '""') + '"'


def generate():
    p = vlib.sh([vlib.HARNESS, "consts"], timeout=120)
    text = p.stdout.decode()
    if "g_EXIT" not in text:
        raise vlib.CheckError("harness consts produced no constants: " + text[:300])
    out = [text]

    def need(pattern, s, what):
        m = re.search(pattern, s, flags=re.S)
        if not m:
            raise vlib.CheckError("translator: cannot find %s in the source" % what)
        return m

    out.append("Definition g_tempifyDepth : Z := %s." % need(r"const tempifyDepth = (\d+)", src("types/node/bytecoder.go"), "tempifyDepth").group(1))
    mem = src("memory/memory.go")
    out.append("Definition g_minStackSize : Z := %s." % need(r"const minStackSize = (\d+)", mem, "minStackSize").group(1))
    out.append("Definition g_localFE : Z := %s." % need(r"localFE = (-?\d+)", mem, "localFE").group(1))
    out.append("Definition g_localFP : Z := %s." % need(r"localFP = (-?\d+)", mem, "localFP").group(1))
    st = src("lexer/states.go")
    out.append("Definition g_stickyChars : string := %s%%string." % coq_str(need(r'stickyChars\s*=\s*"([^"]*)"', st, "stickyChars").group(1)))
    out.append("Definition g_nonStickyChars : string := %s%%string." % coq_str(need(r'nonStrickyChars\s*=\s*"([^"]*)"', st, "nonStrickyChars").group(1)))
    tw = src("parser/token_wrapper.go")
    ops = re.findall(r'"([^"]*)"', need(r"var ops = \[\.\.\.\]string\{([^}]*)\}", tw, "ops").group(1))
    out.append("Definition g_ops : list string := [%s]%%string." % "; ".join(coq_str(o) for o in ops))
    # operator -> opcode switch of BinOp.byteCode
    bc = src("types/node/bytecoder.go")
    sw = need(r"func \(b BinOp\) byteCode.*?switch b\.Op \{(.*?)\n\tdefault", bc, "BinOp.byteCode switch").group(1)
    pairs = []
    for m in re.finditer(r'case ((?:"[^"]*"(?:, )?)+):\s*\n\s*op = bytecode\.(\w+)', sw):
        for o in re.findall(r'"([^"]*)"', m.group(1)):
            pairs.append((o, m.group(2)))
    if len(pairs) < 10:
        raise vlib.CheckError("translator: operator switch of BinOp.byteCode not recognised")
    out.append("Definition g_binops : list (string * Z) := [%s]." % "; ".join("(%s%%string, g_%s)" % (coq_str(o), c) for o, c in pairs))
    # parser levels
    ps = src("parser/parser.go")
    levels = []
    for fn in ["boolOp", "relational", "logic", "addsub", "divmul"]:
        if fn == "relational":
            body = need(r"var relOp = c\.OneOf\((.*?)\n\)", ps, "relOp").group(1)
        else:
            body = need(r"func %s\(.*?op := c\.OneOf\((.*?)\)\n" % fn, ps, fn).group(1)
        levels.append(re.findall(r'acceptToken\("([^"]*)"\)', body))
    un = re.findall(r'acceptToken\("([^"]*)"\)', need(r"func unary\(.*?op := c\.OneOf\((.*?)\)\n", ps, "unary").group(1))
    out.append("Definition g_level_ops : list (list string) := [%s]%%string." % "; ".join("[%s]" % "; ".join(coq_str(o) for o in l) for l in levels))
    out.append("Definition g_unary_ops : list string := [%s]%%string." % "; ".join(coq_str(o) for o in un))
    new = "\n".join(out) + "\n"
    path = os.path.join(vlib.COQ, "GenConsts.v")
    old = open(path).read() if os.path.exists(path) else ""
    if new != old:
        with open(path, "w") as f:
            f.write(new)
        return True
    return False


if __name__ == "__main__":
    vlib.build_harness()
    print("changed" if generate() else "unchanged")
