"""Generator of programs in the proven fragment: the while-language over global
variables (expression statements, assignments, calls of the built-ins write,
toa, aton and read as statements and as right sides of assignments, blocks, if, if/else, while with
pure conditions; literals, globals, all operators, array literals, indexing,
slicing).  Every loop is bounded by a counter the loop body increments, so the
programs terminate."""
import random

BIN_ARITH = ["+", "-", "*", "/", "%"]
BIN_REL = ["<", ">", "<=", ">=", "==", "!="]
BIN_LOG = ["&", "|"]
BIN_BIT = ["<<", ">>"]
NAMES = ["ga", "gb", "gc", "gd", "ge"]
ARRS = ["xa", "xb"]
STRS = ["sa", "sb"]


class G:
    def __init__(self, rng):
        self.rng = rng
        self.cnt = 0
        self.funs = None        # the functions the session has defined so far: (name, arity); set by sessions()
        self.ndef = 0

    def body_expr(self, params, d):
        """a pure expression over the parameters and the globals (no function name, no call)"""
        r = self.rng
        leaves = list(params) * 2 + NAMES + ["1", "2", "10", "2.5"]
        c = r.random()
        if d <= 0 or c < 0.3:
            return r.choice(leaves)
        if c < 0.7:
            return "(%s %s %s)" % (self.body_expr(params, d - 1), r.choice(BIN_ARITH + BIN_REL), self.body_expr(params, d - 1))
        if c < 0.8:
            return "[%s]" % ", ".join(self.body_expr(params, d - 1) for _ in range(r.randint(0, 3)))
        if c < 0.9:
            return "-%s" % self.body_expr(params, d - 1)
        return "%s[%s]" % (r.choice(ARRS), self.body_expr(params, 0))

    def definition(self):
        """a top-level definition in the middle of a session: a new function, or an earlier one defined again"""
        r = self.rng
        mine = [f for f in self.funs if f[0].startswith("u")]
        if mine and r.random() < 0.25:
            name = r.choice(mine)[0]
        else:
            self.ndef += 1
            name = "u%d" % self.ndef
        ar = r.randint(0, 3)
        params = ["p", "q", "w"][:ar]
        self.funs = [f for f in self.funs if f[0] != name] + [(name, ar)]
        return "%s = (%s) -> %s" % (name, ", ".join(params), self.body_expr(params, 2))

    def int_lit(self):
        r = self.rng
        return str(r.choice([0, 1, 2, 3, 5, 7, 10, 64, 255, 1000, 9223372036854775807, 4611686018427387904]))

    def expr(self, d, kind="int"):
        r = self.rng
        if kind == "bool":
            c = r.random()
            if d <= 0 or c < 0.2:
                return r.choice(["true", "false", "gt", "gf"])
            if c < 0.6:
                return "(%s %s %s)" % (self.expr(d - 1), r.choice(BIN_REL), self.expr(d - 1))
            if c < 0.75:
                return "!%s" % self.expr(d - 1, "bool")
            return "(%s %s %s)" % (self.expr(d - 1, "bool"), r.choice(BIN_LOG), self.expr(d - 1, "bool"))
        if kind == "arr":
            c = r.random()
            if d <= 0 or c < 0.3:
                return r.choice(ARRS + ["[1, 2, 3]", "[]"])
            if c < 0.6:
                return "[%s]" % ", ".join(self.expr(d - 1, r.choice(["int", "int", "str", "arr"])) for _ in range(r.randint(0, 4)))
            if c < 0.8:
                return "(%s + %s)" % (self.expr(d - 1, "arr"), self.expr(d - 1, "arr"))
            return "%s[%s:%s]" % (r.choice(ARRS), self.expr(0), self.expr(0))
        if kind == "str":
            c = r.random()
            if d <= 0 or c < 0.4:
                return r.choice(STRS + ['"ab"', '""', '"x y"'])
            if c < 0.8:
                return "(%s + %s)" % (self.expr(d - 1, "str"), self.expr(d - 1, "str"))
            return "%s[%s]" % (r.choice(STRS), self.expr(0))
        c = r.random()
        if d <= 0 or c < 0.25:
            return r.choice(NAMES + [self.int_lit(), self.int_lit(), "2.5", "0.125", "1e3"])
        if c < 0.65:
            op = r.choice(BIN_ARITH + BIN_ARITH + BIN_BIT)
            a, b = self.expr(d - 1), self.expr(d - 1)
            if r.random() < 0.15:
                b = a           # the equal-operands shortcut
            return "(%s %s %s)" % (a, op, b)
        if c < 0.75:
            return "-%s" % self.expr(d - 1)
        if c < 0.8:
            return "~%s" % self.expr(d - 1)
        if c < 0.9:
            return "#%s" % self.expr(d - 1, r.choice(["arr", "str"]))
        return "%s[%s]" % (r.choice(ARRS), self.expr(d - 1))

    def any_expr(self, d):
        return self.expr(d, self.rng.choice(["int", "int", "int", "bool", "arr", "str"]))

    def stmt(self, d):
        r = self.rng
        c = r.random()
        if d <= 0 or c < 0.3:
            k = r.random()
            if k < 0.22:
                return "write(%s)" % self.any_expr(2)
            if k < 0.28:
                return "toa(%s)" % self.any_expr(2)
            if k < 0.46 and k >= 0.36:
                pool = self.funs if self.funs else UFUNS
                mine = [x for x in pool if x[0].startswith("u")]
                f, ar = r.choice(mine) if mine and r.random() < 0.6 else r.choice(pool)
                if f == "fsel":
                    args = "%s, %s, %s" % (r.choice(ARRS + STRS), self.expr(0), self.expr(0))
                else:
                    if r.random() < 0.12:
                        ar = r.choice([0, 1, 2, 3])      # sometimes the wrong number of arguments: the arity error
                    args = ", ".join(self.any_expr(1) for _ in range(ar))
                return r.choice(["%s(%s)" % (f, args), "%s = %s(%s)" % (r.choice(NAMES), f, args)])
            if k < 0.30:
                g = r.choice(NAMES)
                return r.choice(["%s = toa(%s)" % (g, self.any_expr(1)), "%s = aton(%s)" % (g, r.choice(['"12"', '"2.5"', '"q"', "sa"])),
                                 "%s = read()" % g, "read()", "%s = write(%s)" % (g, self.expr(1))])
            if k < 0.36 and k >= 0.30:
                return "aton(%s)" % r.choice(['"12"', '"-7"', '"1.5"', '"4e1"', '"x"', '""', "sa", "sb", "ga", '"9223372036854775808"',
                                              "(%s + %s)" % (r.choice(['"1"', '"2"']), r.choice(['"0"', '".5"', '"e"']))])
            if k < 0.74:
                g = r.choice(NAMES)
                if r.random() < 0.3:
                    return "%s = %s + 1" % (g, g)
                return "%s = %s" % (g, self.expr(2))
            return self.any_expr(2)
        if c < 0.45:
            return "if %s %s" % (self.expr(1, "bool"), self.body(d - 1))
        if c < 0.65:
            return "if %s %s else %s" % (self.expr(1, "bool"), self.body(d - 1), self.body(d - 1))
        if c < 0.85:
            self.cnt += 1
            k = "wk%d" % self.cnt
            lim = r.randint(0, 4)
            inner = "\n".join(self.stmt(d - 1) for _ in range(r.randint(0, 2)))
            return "{\n%s = 0\nwhile %s < %d {\n%s\n%s = %s + 1\n}\n}" % (k, k, lim, inner, k, k) if inner else \
                   "{\n%s = 0\nwhile %s < %d %s = %s + 1\n}" % (k, k, lim, k, k)
        return self.body(d - 1, force_block=True)

    def body(self, d, force_block=False):
        r = self.rng
        if not force_block and r.random() < 0.4:
            s = self.stmt(d)
            # a one-line body must not start with something that continues the condition
            return s if not s.startswith(("(", "-", "[", "~", "#", "{", "!")) or s.startswith("{") else "{\n%s\n}" % s
        return "{\n%s\n}" % "\n".join(self.stmt(d) for _ in range(r.randint(1, 3)))


PRELUDE = ["ga = 3", "gb = 10", "gc = 2.5", "gd = 0", "ge = 7", "gt = true", "gf = false",
           "xa = [4, 5, 6, 7]", "xb = [[1, 2], \"s\", 3]", "sa = \"hello\"", "sb = \"\"",
           # user functions of the proven class: one parameter, the body a pure expression of it and of globals
           "fsq = (x) -> x * x", "flg = (v) -> [v > gb, -v, #xa]", "fid = (p) -> p",
           "fix = (i) -> xa[i] + ga", "fmix = (q) -> (q + gc) * (q - 1) / gd",
           "fadd = (a, b) -> a + b * ga", "fsel = (c, i, j) -> [c[i], c[j], i < j]", "fk = () -> gb + ge"]
UFUNS = [("fsq", 1), ("flg", 1), ("fid", 1), ("fix", 1), ("fmix", 1), ("fadd", 2), ("fsel", 3), ("fk", 0)]


def sessions(seed, n):
    rng = random.Random(seed * 7919 + 11)
    out = []
    for _ in range(n):
        g = G(rng)
        g.funs = list(UFUNS)
        body = []
        for _ in range(rng.randint(3, 7)):
            if rng.random() < 0.15:
                body.append(g.definition())      # definitions anywhere between the statements
            body.append(g.stmt(rng.randint(1, 3)))
        out.append(PRELUDE + body)
    return out
