#!/usr/bin/env python3
"""Generate /verif/MANIFEST.json from the table below (one entry per property)."""
import json
import os
import subprocess

V = "/verif"
T = {}


def add(pid, category, text, note, technique, ref=None):
    T[pid] = {"category": category, "text": text, "note": note, "technique": technique,
              "ref": ref or "DESIGN.md section 6, %s" % pid}


COMMON_NOTE = ("Trusted: Coq 8.16.1 kernel and vm_compute; the hand-written Gallina models (tied to /repo by the "
               "correspondence runs of this check on every run); the Go harness built with -tags verif and the Python driver. "
               "No axioms declared; Print Assumptions shows only Coq's primitive int63/float operations and, where float "
               "comparison is reasoned about, the standard library's FloatAxioms.")
DIFF = "Coq models and definitional semantics + differential testing against the Go code (testing, not proof, for the open part)"

add("C01", "other",
    "Partial. Proved in Coq: the definitional semantics coq/Sem.v obeys the documented language rules (PropC01.v); and compiler "
    "correctness on the pure-expression fragment (ExprSem/ExprVM/ExprCorrect/ExprTop.v): for every expression built from "
    "int/float/bool/string literals, global variables, all binary operators, unary - # ! ~, array literals, indexing a[i] and "
    "slicing a[f:t] at any depth, the code the compiler "
    "model emits in ANY context (operand selector, Discard/ForbidTemp/AcceptTemp/OpDepth/... flags; both temp-register "
    "strategies, the x-op-x shortcut, unary minus as -1*x) run by the VM model from any state leaves exactly Sem's value where "
    "the operand says, keeps the stack below, and raises the same error class; through ByteCode/load/Run and run_tree the "
    "result equals Sem's, the stack pointer, globals and output are as before. Over histories (ExprAssign/ExprSession.v): in "
    "every session of expression statements and assignments g = e of pure expressions to globals (g = g + 1 and g = 1 + g are the INC "
    "instruction), failing statements included, each statement gives Sem's value or error class, binds Sem's globals, writes "
    "nothing and leaves the machine ready for the next (C01_simple_sessions_partial). And the whole while-language over "
    "globals (StmtSem/StmtRel/StmtVM/CallVM/StmtCorrect/StmtTop.v): blocks, if, if/else and while with pure conditions, nested without bound, "
    "and user-level calls of the built-ins write(e), toa(e), aton(e), read() as statements and as right sides of assignments "
    "(the CALL/RET protocol: frame, closure stack, return address; the written output and the unread input are part of the world "
    "a statement acts on), and calls of user functions of any number of parameters whose body is a pure expression of the parameters and the "
    "globals (LExprCorrect.v: expressions with local variables in every context inside an activation; premise: the body's code lies "
    "at the function's entry point - proved to be established by running the definition f = (ps) -> body itself (StmtDef.v, "
    "C01_definition_extends_the_table), so that sessions of definitions and statements in any order are covered "
    "(C01_sessions_with_definitions_partial)), "
    "compiled in value position and in discarded position (both code-generation strategies of each construct, negated-condition "
    "folding, jumps and back-patching, the last-value slot of a value-position while): for every fuel for which the fuelled "
    "semantics ssem - which Sem.eval computes with the same fuel - defines a statement, the compiled code run by the VM model "
    "ends with that value or error class and that world (globals, output written, input left), in REPL mode and file mode, over whole sessions "
    "(C01_statement_sessions_partial; C01_statement_sem_vs_vm ties Sem.eval and the run through worlds that agree off the function "
    "names, which the two sides bind to different representations; C01_sessions_sem_vs_vm_partial (StmtMixed.v) does so over whole "
    "sessions with definitions, between sem_tree and run_tree - the two functions this check evaluates next to the real interpreter - "
    "from the start states of a real session; the checkers the run evaluates on every generated session - the machine and the Sem "
    "state after the session's first tree, and the remaining trees - are proved sound for these theorems' premises, so the trees the "
    "evidence counts as covered are covered: C01_counted_trees_are_covered, C01_counted_trees_are_covered_sem_vs_vm). "
    "Not proved: user functions whose bodies are not expressions, "
    " definitions inside blocks or functions, exit, calls nested in expressions, generators, closures "
    "(full statement: C01_compile_correct_statement). The property is "
    "decided each run by differential testing: generated sessions are run on the real code and compared, inside Coq, with Sem "
    "(property oracle) and with the compiler/VM model (correspondence; bytecode-level agreement of the compiler model was "
    "established on thousands of statements).", COMMON_NOTE, DIFF)
add("C09", "other",
    "Partial. Proved in Coq (PropC09.v): the error path resets the main machine completely; stack growth preserves contents; "
    "Push/Pop and PushFrame/PopFrame are balanced in the memory model; a compiled pure-expression statement (any depth, any "
    "operators) leaves sp, the cells below, frames, closures and the main context's ip where they must be "
    "(C09_pure_expression_is_balanced), and so does every statement of the while-language over globals - blocks, if, if/else, "
    "while in value and discarded position, any number of iterations, REPL and file mode (C09_statement_is_balanced). Not "
    "proved: balance of calls, generators and for "
    "(C09_stmt_balanced_statement). Decided each run by reading sp / frame / closure / live-context / ip counters of the real "
    "machine after every statement (both compile modes), loop-scaling programs whose stack length must not depend on the "
    "iteration count, and comparison of all counters with the VM model.", COMMON_NOTE, DIFF)
add("C11", "proof",
    "Coq theorems (PropC11.v over coq/Value.v) prove the operator laws for all operand values: promotion, truncating division, "
    "zero-division errors, symmetry of == and negation by !=, relational consistency, functions never equal, nil operands "
    "always fail, every operator total with documented errors only, slice length / split+concat / length of concatenation, "
    "index error iff out of bounds; & and | commute (errors included) and associate, ! and ~ are involutions defined on one type each, "
    "De Morgan, shifts of integers are total with 64-bit results, out-of-range counts give 0, zero count is the identity, concatenation associates with the empty value as unit, "
    "integer + and * commute and associate through the 64-bit wrap. One law (an int equals its float) is proved under the hypothesis that int-to-float "
    "conversion is not NaN and is named _partial. The model is tied to types/value by a correspondence run (about 30k operand "
    "tuples incl. float bit patterns and float text) and the laws are also evaluated directly on the Go results.",
    COMMON_NOTE + " Axioms used: FloatAxioms.eqb_spec, ltb_spec, leb_spec.",
    "machine-checked proof in Coq over a hand-written model + differential correspondence with the Go code")
add("C15", "proof",
    "Coq theorems (PropC15.v) prove for all selectors, kinds, opcodes and addresses that encode/decode round-trips, that "
    "OR-patching a zero field sets only that field, that out-of-range addresses are refused, and that function packing is "
    "lossless; the model (coq/Bytecode.v) is tied to types/bytecode and value.NewFunction by an exhaustive run of the real code "
    "plus a correspondence run inside Coq; scale sessions (2^15 constants, 2^15 / 2^16 instructions) must work or be refused.",
    COMMON_NOTE, "machine-checked proof in Coq over a hand-written model + exhaustive/differential correspondence with the Go code")

add("C05", "other",
    "Partial. Proved in Coq (PropC05.v): every operator on every pair of operand values returns a value or a documented error "
    "(totality, zero division, index bounds, shifts); and the compiler model never panics (CompileProofs.v, CompileLoops.v: a Hoare "
    "logic over the compiler monad): on every tree of the shape the parser and the resolver produce, from every state and in every "
    "flag context, both entry points return code or the refusal of an oversize program — every back-patch hits an instruction "
    "emitted before, every operand selector exists, every reference is a variable; and (ParserShape.v) every tree the grammar model "
    "returns has that shape and the resolver model keeps it, so for every input text, every tree parsed from it and every compiler "
    "state the compiler returns code or a refusal (C05_no_input_makes_the_compiler_panic); the shape is also evaluated on every "
    "resolved tree of the run (chk_wfb). For the while-language over globals (C01) compiled code never drives the VM model "
    "into Abort, whatever the fuel (C05_statement_runs_never_abort). Not proved: the same for calls, closures and generators. "
    "Decided each run on adversarial programs run on the real code with panics recovered and a time "
    "limit: every operator x 21 operands of every type in 23 statement shapes, the generator's adversarial profile, token-mutated "
    "valid sessions; any recovered panic or undocumented error is a violation; the VM model (each Go panic site = Abort) must agree.",
    COMMON_NOTE, DIFF)

add("C08", "other",
    "Partial. Proved in Coq (PropC08.v): the VM model's error path leaves the main machine clean (sp, frames, closures, child "
    "contexts, ip) and keeps the globals; a run that ends in an error hands back exactly the reset of the state in which the "
    "failing step ended, and code, data segment and debug table are untouched by any run (StepCode.v, over every opcode). "
    "For sessions of simple statements (pure expressions and assignments of pure expressions to globals; ExprSession.v) the "
    "property is proved on the compiler and VM models: a failing statement changes neither globals nor output and leaves the "
    "machine ready (C08_simple_failure_is_invisible); two machines with the same globals give the same result wherever the "
    "statement's code and data land (C08_simple_relocation); every later statement of every such history gives what the "
    "semantics gives (C08_simple_sessions). For the whole proven fragment of C01 (statements over globals with output and input, "
    "calls of the leaf built-ins and of expression-bodied user functions, and the definitions of such functions; StmtTwin.v, "
    "StmtModes.v): a statement that fails anywhere leaves the world of its meaning and a machine at top level, and from there every "
    "later tree - statement or definition - behaves as on any machine that never saw it but holds the same global data, wherever "
    "the two machines' code lies and whatever function values their tables hold (C08_failed_statement_then_any_session_partial, "
    "C08_twin_sessions_with_definitions_partial). Not proved in general: that code compiled at shifted offsets behaves the same "
    "(C08_twin_sessions_statement). Decided each run by twin sessions on the real code: histories with parse errors and "
    "runtime errors of every class at depth 0-30, in loops, in suspended generators 1-3 levels deep, several in a row, "
    "against the same history without the failures; every later statement must agree. The failing histories are also "
    "compared with Sem and the VM model.", COMMON_NOTE, DIFF)

add("C12", "other",
    "Partial. Proved in Coq on the definitional semantics (PropC12.v): increment forms are the same computation, a one-statement "
    "block / true if is its body, negated if swaps the branches, a condition must be boolean in if, if-else and while. The "
    "compiled side is proved for pure expressions (C12_pure_expression_any_context, ExprCorrect.v): in every compilation context "
    "- any operand selector and any combination of the Discard/ForbidTemp/AcceptTemp/OpDepth/InFor/InFunc flags, i.e. result used "
    "or discarded, operand of a deeper or shallower operator, temp register allowed or not - the emitted code computes the one "
    "value Sem defines (or its error), for literals, globals, all operators, array literals, indexing and slicing at any depth, "
    "including the equal-operands shortcut; and for the while-language over globals (C12_statement_used_or_discarded): a "
    "statement compiled for its value or discarded - both strategies of if, if/else, while, blocks, assignments - has the one "
    "meaning ssem, conditions must be boolean in every position, if !c A else B is if c B else A. "
    "For calls, generators and locals the compiled side is C01's open statement. Decided each run by metamorphic testing on the real code: every generated expression "
    "is placed in about 45 positions (used/discarded, function tail, loop body, call argument, array element, assignment, return, "
    "yield, generator, typed identity embeddings at several operator depths, condition positions) and value/output/error class "
    "compared pairwise, plus statement-form equivalences (x=x+1 / x=1+x / t=x;x=t+1, e op e vs t op t, if !c A else B vs if c B else A).",
    COMMON_NOTE, "metamorphic testing of the Go code across code-generation contexts + Coq theorems on the semantics + model correspondence")

add("C03", "other",
    "Partial. Proved in Coq on the definitional semantics (PropC03.v): frames are fresh objects, creating frames or closures "
    "disturbs nothing that exists, an assignment writes one slot of its own activation: there is no hidden machine state a call "
    "could depend on. Not proved: the same independence for the VM (memory layer: C18; K1 open). Decided each run by placing the "
    "same call of a side-effect-free function in about 60 dynamic contexts of one session on the real code (call depth 1-400, "
    "loop bodies, generators, after stack growth, operand stack heights sweeping the 128-slot boundaries, wide frames, recycled "
    "contexts, after errors); all renderings must agree; sessions also run on Sem and the VM model.", COMMON_NOTE,
    "metamorphic testing of the Go code across dynamic contexts + Coq theorems on the semantics + model correspondence")
add("C04", "other",
    "Partial. Proved in Coq about the resolver model (PropC04.v): a read resolves to the own variable, else the immediately "
    "enclosing function's, else the global, never further out; a write inside a function targets its own scope; fresh slots are "
    "distinct. The resolver model is compared with STRewrite's output tree-for-tree on every generated program. Not proved: that "
    "the VM keeps globals and caller variables untouched across calls and that escaped closures see the right frame (K2 open). "
    "Decided each run with Sem as oracle on scoping-heavy generated sessions and by fingerprinting globals / caller variables "
    "around calls on the real code.", COMMON_NOTE, DIFF)

add("C02", "other",
    "Partial. Proved in Coq on the definitional semantics (PropC02.v): a naked yield is the identity; a one-iterator loop is "
    "exactly bind / body / only-then-resume (an explicit recursion over the generator's resumptions); no yield means no body and "
    "nil; return in the body abandons the generator; errors end the statement; bodies run in yield order; a generator handing out "
    "n values makes the body run exactly n times in order, for every n (C02_n_yields_n_bodies_in_order). Not proved: that the "
    "VM's context instructions implement this. Decided each run on generator-heavy sessions (towers of map/filter/take/chain/zip "
    "to depth 4, recursive generators, nested and multi-iterator loops, early returns, deep recursion, closure instances with "
    "loops within one statement) compared inside Coq with Sem and the VM model, including interleaved output and the loop "
    "variables after the loop.", COMMON_NOTE + " Axiom used by the for-loop equation: functional_extensionality_dep (standard library).", DIFF)

add("C19", "other",
    "Partial. Proved in Coq (PropC19.v, StepErr.v) about the VM model: every error site of every opcode attributes the error to "
    "the instruction being executed in the context executing it; for binary operators the listed operands are the two fetched "
    "operands and the class is the operator's verdict on exactly those; the report lists the code that ran, marks the failing "
    "instruction and no other line, with the operand values on it; Run returns that report and a reset machine; the report names "
    "the class, class names are distinct. Not proved: that the frames section lists the active calls. Decided each run with failing programs whose failing operator, operand values and call chain are known by "
    "construction (23 failure forms x depth 0-6 x plain/alias/loop/generator/nested generator): the real report is parsed and "
    "compared with the construction; and the full report text is compared byte for byte with the VM model.", COMMON_NOTE,
    "constructed-oracle testing of the Go report + byte-level correspondence with the Coq VM model")

add("C17", "other",
    "Partial. Proved in Coq (PropC17.v, GenProofs.v, ForProofs.v): aton(toa(n)) = n for every integer (decimal text round trip, sign and range), toa "
    "renders exactly what write prints, aton of a non-string is a type error; about the trees regenerated from builtin/builtin.go "
    "on every run and bound by the session semantics (an edit there re-checks or breaks these): fromto(a,b) hands out a..b-1 and "
    "nothing when a>=b, indices(x) 0..#x-1, elems(x) x[0]..x[#x-1] for every int64 a,b and every array/string x, touching only the "
    "generator's own frame; a for loop over each runs its body once per value in order; elems of a non-sequence is a type error; "
    "k successive read() calls return the first k input lines and keep the rest. All about the definitional semantics Sem; the "
    "compiled code is tied to Sem by correspondence. Open: the float text round trip (tested). Decided each run on the real code: toa vs the bytes "
    "write prints and aton(toa(x)) == x over int boundary classes and floats given by exact decimal text; generator built-ins "
    "against computed expectations incl. the ends of the int range; wrong-argument calls; read() histories through the real "
    "binary with piped input (lines up to 20000 bytes, with/without final newline).", COMMON_NOTE,
    "Coq proofs of the text round trip + translator-regenerated built-in trees + oracle testing of the Go code and binary")

add("C14", "other",
    "Partial. Proved in Coq about the lexer model (PropC14.v): UTF-8 decoding of ASCII and progress, totality of the state "
    "functions, continuation of operator runs, that an emitted token's text and span are the input slice between from and to, and "
    "for the whole stream of every input (LexerSpans.v, C14_tokens_in_source_order): every token lies inside the input, tokens "
    "follow each other in source order and never overlap (the two synthetic end tokens carry the empty span). The other "
    "whole-stream clauses are not proved; every clause of the property (order, disjoint spans, text = slice, gaps are "
    "blanks/comments, longest operator runs, one end-of-line token per line break, EOL+EOF once at the end, layout insensitivity) "
    "is evaluated on the token streams of the real lexer over exhaustive short strings, token soup and random bytes; the lexer "
    "model is compared token for token (kind, text, span, error message) with lexer.Lexer on every input. K4 (decoded \\n in "
    "string literal text, pinned by the repository's own test) is a known finding.", COMMON_NOTE,
    "property clauses evaluated on real token streams + token-level correspondence with the Coq lexer model + table theorems")

add("C13", "proof",
    "Proved in Coq (PropC13.v) about the transactional lexer model and the Go-faithful combinator interpreter: "
    "Snapshot/Rollback restores position and stack, Snapshot/Commit keeps the position, replay below the write pointer returns "
    "the cached token, Assert / Not / Ok consume nothing; and the refinement (CombProofs.v, C13_backtracking_is_invisible): for every "
    "combinator expression over all 12 combinators and every fuel, the interpreter that issues Next/Snapshot/Commit/Rollback as the "
    "Go closures do, over the replay cache, computes exactly what ordered choice computes on the plain token list (nodes, position "
    "afterwards, error, panics, snapshot stack as found). The lexer below enters as a token source with two hypotheses of the "
    "theorem (it delivers one fixed list in order and then reports the end), shown satisfiable by the concrete lexer model on an "
    "example and compared on every run. Decided each run: all Next/Snapshot/Rollback/Commit sequences up to length 6 (9 thorough) "
    "and random longer ones on the real TLexer against the cursor specification; thousands of random parser expressions over all "
    "12 combinators run with the real combinators on the real TLexer and compared (nodes, error, position afterwards, snapshot "
    "balance) with the ordered-choice specification and with the interpreter model, inside Coq.", COMMON_NOTE,
    "specification (ordered-choice recogniser, cursor) evaluated in Coq against the real combinators/TLexer + model correspondence + law theorems")

add("C06", "other",
    "Partial. Proved in Coq about the lexer model (PropC06.v; the model is compared token for token with the Go lexer in C14's "
    "run): one call of Next never runs out of steps and keeps the lexer well formed, so every call of a scan terminates; the state "
    "table forces progress at end of input; spans lie inside the input; only the end state can abort and it is never fed a rune. "
    "About the grammar model (compared with parser.Parse in C07's and this run): on every input it returns trees or rejects and "
    "never exhausts its fuel, because every successful parse of an expression, statement or block consumes a token "
    "(C06_parser_total, two mutual inductions over all nonterminals). Decided each run by running parser.Parse + reportError + processInput and the -eval path of the "
    "binary on hostile hand-picked inputs (nesting 10^4 / 10^5, 400-digit literals, NUL, invalid UTF-8), all strings up to length 3 "
    "(4 thorough) over a class alphabet and thousands of random inputs, with a time limit, panic recovery and crash detection: no "
    "hang, no abort, span inside input, report printable, nothing of a rejected input executed. K3 (Go stack limit) is a known finding.",
    COMMON_NOTE, "Coq termination proof of the lexer model + totality testing of the real front end under time limit and crash detection")

add("C07", "other",
    "Partial. The documented-rules printer is a Coq function (Printer.v) and the grammar is a Coq function over the lexer model's "
    "tokens (Grammar.v). Proved (PropC07.v, by induction over the tree, no bound on depth): every expression tree without "
    "function literals (any nesting of the 15 binary operators on 5 levels, unary operators, both index forms, array literals, "
    "calls, literals, names) printed by the documented rules is parsed back to the same tree by the grammar model, at every "
    "operand position and also inside redundant parentheses, whatever follows it as long as that cannot continue an expression; "
    "string literal quoting round-trips; and (StmtProofs.v) every statement form — if, if-else with the dangling-else rule, "
    "while, for over several iterators, return, yield, assignment, expression statements — in every body position (one-line, "
    "braced because otherwise ambiguous, braced block, redundant braces unwrapped) and a whole input round-trip, for trees "
    "without function literals. Not proved: function literals; that the lexer returns the printed tokens (checked per tree). Decided each run: ~1500 systematic trees (every operator "
    "pair in both nestings, every statement form in every body position) plus random and very deep trees are written out in 8 "
    "layouts (spacing, blank lines, comments, redundant parentheses and braces) and parsed by the real parser.Parse; Coq compares "
    "every result with the tree, compares the check's printer with Printer.v, the lexer model's tokens with the printed ones, and "
    "the grammar model with parser.Parse on every layout and on ~1700 arbitrary (mostly rejected) inputs.",
    COMMON_NOTE, "Coq printer + grammar model with round-trip theorems; differential run of parser.Parse against tree, printer and grammar model")

add("C18", "other",
    "Partial. Proved in Coq about the memory operations of the VM model (PropC18.v): a written local is read back, a write "
    "touches exactly one stack cell, growth keeps every cell, Push/Pop and PushFrame/PopFrame restore the frame structure, a new "
    "frame leaves every lower cell alone. Mem18.v defines the whole history semantics twice (G: the Go algorithm with aliases and "
    "recycled clones; A: activations owning their variables); MemRefine.v proves by a simulation (the first sp cells of the Go "
    "slice are the flattening of A's activations, the frame-pointer list their bounds, the rest junk no read sees) that on every "
    "legal history of push, pop, frame push/pop of any width and depth, variable write/read, return-address read/write, globals "
    "and clones into fresh or recycled memories, G shows exactly A's values and never aborts "
    "(C18_go_memory_refines_activations); MemClosure.v/MemAlias.v extend the simulation to all sixteen operations, the "
    "closure-alias ones included (capture of the top frame as an alias into the stack slice, copy of a captured frame, closure "
    "stack, read of a captured variable): every alias with serial s points at the cells of A's activation s while it is live, "
    "serials never repeat (C18_go_memory_refines_activations_full). G's alias reads follow the current slice; the real Go alias "
    "keeps the array it was cut from, which differs after a reallocation (K1, flagged stale by G, not exhibitable by a list model). Decided each run: ~300 generated histories (nested calls with frame "
    "widths 0..1000 across the growth steps, depth up to 40/1000, random mixes, forked/recycled generator memories, captured "
    "frames) are replayed on the real memory.Type and compared read by read with A and G in Coq; wide-frame programs go through "
    "Sem and the VM model; recursion depth 10^5 (10^6 thorough) runs through the binary. K1 (stale captured frame after growth) is "
    "a known finding, attributed only to reads G flags as stale.",
    COMMON_NOTE, "Coq theorems on the memory operations + three-way replay (real memory.Type, Go-algorithm model, specification) of generated histories")

add("C10", "proof",
    "Proved in Coq on a model of Go slices (Slice.v: backing arrays, shared sub-slices, append that writes in place when "
    "capacity allows; calc's concatenation, slicing, indexing and array building written with the primitives value.go and vm.go "
    "use): no sequence of operations changes a value that already exists, for every capacity the Go runtime may choose; without "
    "the copy before append the statement is refuted by a witness. About the VM model (StepCode.v, a case analysis over every "
    "opcode): no instruction writes the data segment where every literal of the program text lives, after any number of steps and "
    "whatever the outcome, so a literal is the same value every time control passes over it. The model is compared on every run with real value.Type values "
    "(value, slice length and capacity through a verif hook) on ~250 generated operation sequences, where also every pool value is "
    "re-rendered after every operation. Whole programs (temp-register chains, literals in functions/loops/recursion, closures, "
    "generators, strings) dump all variables after every statement: unassigned variables must print as before, and the sessions "
    "are compared with Sem and the VM model, whose values are immutable by construction. Not proved: that vm.go and value.go use "
    "the primitives as Slice.v says (that is what the correspondence run checks).",
    COMMON_NOTE, "Coq theorem on a slice/backing-array model for every capacity oracle + differential runs of value.Type and whole programs")

add("C16", "other",
    "Partial. Proved in Coq about the model of the read-eval loop and the file reader (Repl.v): a script whose top-level "
    "statements are each complete is handed to processInput statement by statement, each as if entered on its own; a final line "
    "break is irrelevant; bytes inside string literals and comments never count; and on the compiler and VM models, for the "
    "while-language over globals, value-mode compilation (REPL, -eval) and discarding compilation (file mode) leave the same "
    "globals (C16_modes_bind_the_same_globals), and whole sessions of such statements and of definitions of expression-bodied "
    "functions run in the two modes stay related tree after tree: same values or errors (file mode shows no value), same global "
    "data, output and input (C16_sessions_in_both_modes_partial, StmtModes.v). Decided each run: the model against the real "
    "node.Loop/FReader on ~600 arbitrary line sequences (recording parser); ~120 generated scripts (multi-line blocks, arrays and "
    "strings with braces/brackets/quotes/semicolons in strings and comments, with and without final line break) run by the built "
    "binary in file mode and as piped REPL and compared byte for byte with processInput per statement; ~45 single statements run "
    "in all three modes. Not proved: that processInput itself behaves identically in the three modes (decided by the runs).",
    COMMON_NOTE, "Coq theorems on the loop/file-reader model + differential runs of the built binary in its three modes against processInput per statement")

PENDING_REASON = "check under construction in this round (the technique applies; see DESIGN.md section 6); not yet claimed"


def main():
    props = [json.loads(l)["id"] for l in open(os.path.join(V, "properties.jsonl"))]
    hooks = subprocess.check_output("git -C /repo log --format=%h --grep='verif hooks'", shell=True).decode().split()
    checks = []
    na = []
    for p in props:
        have = os.path.exists(os.path.join(V, "tools", "checks", p.lower() + ".py"))
        if p in T and have:
            t = T[p]
            checks.append({
                "property_id": p,
                "quick_cmd": "./check %s --tier quick" % p,
                "thorough_cmd": "./check %s --tier thorough" % p,
                "evidence_file": "/verif/evidence/%s.json" % p,
                "replay_cmd_template": "./check %s --replay {path}" % p,
                "engine": "coq-model",
                "level_claimed": {"category": t["category"], "text": t["text"], "design_ref": t["ref"]},
                "level_note": t["note"],
                "technique": t["technique"],
            })
        else:
            na.append({"property_id": p, "reason": PENDING_REASON})
    claimed = [c["property_id"] for c in checks]
    man = {
        "version": 1,
        "setup_cmd": "make -C /verif setup",
        "hooks": {
            "guard": "verif",
            "enable": "go build -tags verif (the harness module /verif/harness replaces github.com/paulsonkoly/calc with /repo)",
            "baseline_off_cmd": "cd /repo && go build ./... && go test -vet=off -count=1 ./...",
            "source_commits": hooks,
            "add_only": True,
        },
        "engines": [
            {"name": "coq-model", "path": "/verif/coq", "serves_properties": claimed,
             "kind_free_text": "Coq 8.16.1 development: executable Gallina model of calc (lexer .. VM), a definitional semantics, "
                               "and theorems per property (Prop*.v); evaluated on cases with vm_compute"},
            {"name": "harness", "path": "/verif/harness", "serves_properties": claimed,
             "kind_free_text": "Go program built with -tags verif against /repo's working tree; runs the real packages on "
                               "generated cases and prints results as Coq terms for the correspondence check"},
        ],
        "checks": checks,
        "not_applicable": na,
        "notes": "Known findings (open and fixed) are in /verif/known_findings.json; seeded changes and which check caught "
                 "them in /verif/seeded/.",
    }
    json.dump(man, open(os.path.join(V, "MANIFEST.json"), "w"), indent=1)
    print("claimed:", claimed)


if __name__ == "__main__":
    main()
