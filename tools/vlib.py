"""Shared machinery of the /verif checks: building, running the Go harness on
/repo's working tree, evaluating the Coq model on cases, auditing theorems,
known findings, evidence and verdict output.  Standard library only."""
import hashlib
import json
import os
import re
import subprocess
import sys
import time
from concurrent.futures import ThreadPoolExecutor

VERIF = os.path.dirname(os.path.dirname(os.path.abspath(__file__)))
REPO = os.environ.get("VERIF_REPO", "/repo")
BUILD = os.path.join(VERIF, "build")
COQ = os.path.join(VERIF, "coq")
HARNESS_SRC = os.path.join(VERIF, "harness")
HARNESS = os.path.join(BUILD, "harness")
CALC_BIN = os.path.join(BUILD, "calc")
GOENV = dict(os.environ, GOFLAGS="-mod=mod", GOPROXY="off", GOSUMDB="off", GOTOOLCHAIN="local",
             CGO_ENABLED="0")

ALLOWED_AXIOMS_PREFIX = (
    # Coq's primitive machine integers / floats and the standard library's own
    # specification axioms for them (named in the trusted base)
    "PrimFloat.", "PrimInt63.", "FloatAxioms.", "Uint63Axioms.", "Uint63.", "Sint63Axioms.",
    "FunctionalExtensionality.",
)


class CheckError(Exception):
    pass


def sh(cmd, cwd=None, env=None, timeout=None, input_bytes=None, check=True):
    p = subprocess.run(cmd, cwd=cwd, env=env, timeout=timeout, input=input_bytes,
                       stdout=subprocess.PIPE, stderr=subprocess.PIPE)
    if check and p.returncode != 0:
        raise CheckError("command failed (%d): %s\n%s\n%s" % (
            p.returncode, " ".join(cmd) if isinstance(cmd, list) else cmd,
            p.stdout.decode(errors="replace")[-3000:], p.stderr.decode(errors="replace")[-3000:]))
    return p


# --------------------------------------------------------------------------
# building

def build_harness():
    """Build the harness (and through it the real packages) from /repo's
    current working tree with the verif tag."""
    os.makedirs(BUILD, exist_ok=True)
    gosum = os.path.join(REPO, "go.sum")
    if os.path.exists(gosum):
        with open(gosum, "rb") as f, open(os.path.join(HARNESS_SRC, "go.sum"), "wb") as g:
            g.write(f.read())
    t = time.time()
    p = sh(["go", "build", "-tags", "verif", "-o", HARNESS, "."], cwd=HARNESS_SRC, env=GOENV,
           timeout=600, check=False)
    if p.returncode != 0:
        raise CheckError("harness does not build against /repo:\n" + p.stderr.decode(errors="replace")[-4000:])
    return time.time() - t


def build_calc():
    """Build cmd/calc itself from the working tree (no tag: the shipped binary)."""
    os.makedirs(BUILD, exist_ok=True)
    p = sh(["go", "build", "-o", CALC_BIN, "./cmd/calc"], cwd=REPO, env=GOENV, timeout=600, check=False)
    if p.returncode != 0:
        raise CheckError("cmd/calc does not build:\n" + p.stderr.decode(errors="replace")[-4000:])


def build_coq(clean=False):
    """(Re)build the Coq development with make; incremental unless clean."""
    mk = os.path.join(COQ, "Makefile")
    if clean and os.path.exists(mk):
        sh(["make", "-C", COQ, "-f", "Makefile", "clean"], check=False, timeout=600)
    if not os.path.exists(mk) or os.path.getmtime(mk) < os.path.getmtime(os.path.join(COQ, "_CoqProject")):
        sh(["coq_makefile", "-f", "_CoqProject", "-o", "Makefile"], cwd=COQ, timeout=120)
    t = time.time()
    global COQ_BROKEN
    COQ_BROKEN = None
    p = sh(["make", "-C", COQ, "-f", "Makefile", "-j16"], timeout=3600, check=False)
    if p.returncode != 0:
        # A proof or a generated-constant check no longer goes through on this tree.  Build whatever
        # still builds (the executable model and the correspondence files do not depend on the proof
        # files), so that the check can go on to search for a concrete failing input; the broken
        # obligation is reported by the caller.
        p2 = sh(["make", "-C", COQ, "-f", "Makefile", "-j16", "-k"], timeout=3600, check=False)
        text = p2.stdout.decode(errors="replace") + p2.stderr.decode(errors="replace")
        errs = re.findall(r'(File "\./[^"]+", line \d+, characters [\d-]+:\nError:(?:.|\n)*?)(?=\nmake|\nFile "|\Z)', text)
        global COQ_FAILED
        COQ_FAILED = sorted(set(re.findall(r'File "\./([\w]+)\.v", line \d+, characters [\d-]+:\nError', text))) or ["?"]
        COQ_BROKEN = "Coq development does not build on this tree; broken: " + \
            ("\n---\n".join(e[:1200] for e in errs[:6]) if errs else text[-3000:])
        if not os.path.exists(os.path.join(COQ, "Base.vo")):
            raise CheckError(COQ_BROKEN)
    return time.time() - t


COQ_BROKEN = None
COQ_FAILED = []
CURRENT = None


def coq_closure(module):
    """Names of the development's files the module depends on (transitively), itself included."""
    p = sh(["coqdep", "-Q", ".", "Calc"] + sorted(f for f in os.listdir(COQ) if f.endswith(".v")),
           cwd=COQ, timeout=300, check=False)
    deps = {}
    for ln in p.stdout.decode(errors="replace").splitlines():
        m = re.match(r"(\w+)\.vo[^:]*:\s*(.*)$", ln)
        if m:
            deps[m.group(1)] = set(re.findall(r"(\w+)\.vo\b", m.group(2)))
    seen, todo = set(), [module]
    while todo:
        x = todo.pop()
        if x in seen:
            continue
        seen.add(x)
        todo.extend(deps.get(x, ()))
    return seen


def coq_broken_for(module, extra=("CheckConsts", "GenConsts")):
    """The build problem, if it concerns this property: a file the property's theorems depend on, or the
    re-check of the constants read from the source, no longer compiles."""
    if not COQ_BROKEN:
        return None
    rel = coq_closure(module) | set(extra)
    hit = [f for f in COQ_FAILED if f in rel or f == "?"]
    if not hit:
        return None
    return "%s [files: %s]" % (COQ_BROKEN, ", ".join(hit))


def coqchk_module(module, timeout=7200):
    """Thorough tier: re-check the compiled property module and everything it depends on with Coq's
    independent checker.  Cached by the content of coq/*.v.  Returns (problems, axioms)."""
    import hashlib
    h = hashlib.sha256()
    for f in sorted(os.listdir(COQ)):
        if f.endswith(".v"):
            h.update(f.encode())
            h.update(open(os.path.join(COQ, f), "rb").read())
    cdir = os.path.join(BUILD, "coqchk")
    os.makedirs(cdir, exist_ok=True)
    cache = os.path.join(cdir, "%s-%s.json" % (module, h.hexdigest()[:16]))
    if os.path.exists(cache):
        d = json.load(open(cache))
        return d["problems"], d["axioms"]
    p = sh(["coqchk", "-silent", "-o", "-Q", COQ, "Calc", "Calc." + module], timeout=timeout, check=False)
    out = p.stdout.decode(errors="replace") + p.stderr.decode(errors="replace")
    problems = []
    if p.returncode != 0:
        problems.append("coqchk fails on %s: %s" % (module, out[-1500:]))
    for label in ("relying on type-in-type", "relying on unsafe (co)fixpoints", "whose positivity is assumed"):
        m = re.search(re.escape(label) + r":\s*(.*?)\n\s*\n", out, flags=re.S)
        if not m or m.group(1).strip() != "<none>":
            problems.append("coqchk: %s: %s" % (label, (m.group(1).strip()[:300] if m else "section missing")))
    axioms = []
    m = re.search(r"Axioms:\s*(.*?)\n\s*\n", out, flags=re.S)
    if m and m.group(1).strip() != "<none>":
        axioms = [a.strip() for a in m.group(1).split("\n") if a.strip()]
    # coqchk lists the axioms of every loaded library file, used or not; anything that is not the standard
    # library's own is a problem, the rest is named in the evidence
    for a in axioms:
        if not a.startswith("Coq."):
            problems.append("coqchk reports an axiom that is not the standard library's: " + a)
    json.dump({"problems": problems, "axioms": axioms}, open(cache, "w"))
    return problems, axioms


def gate_no_admits():
    """Reject Admitted/admit/Axiom/Parameter/... anywhere in the development."""
    bad = []
    pat = re.compile(r"\b(Admitted|admit|Axiom|Axioms|Parameter|Parameters|Conjecture|Admit Obligations|"
                     r"bypass_check|Unset Guard Checking|Unset Positivity Checking|Unset Universe Checking|"
                     r"type-in-type|impredicative-set)\b")
    for root, _, files in os.walk(COQ):
        for fn in files:
            if not fn.endswith(".v"):
                continue
            path = os.path.join(root, fn)
            text = open(path, encoding="utf-8", errors="replace").read()
            text = re.sub(r"\(\*.*?\*\)", "", text, flags=re.S)
            for m in pat.finditer(text):
                bad.append("%s: %s" % (os.path.relpath(path, VERIF), m.group(0)))
    with open(os.path.join(COQ, "_CoqProject")) as f:
        for line in f:
            if re.search(r"type-in-type|impredicative-set|-bypass", line):
                bad.append("_CoqProject: " + line.strip())
    return bad


# --------------------------------------------------------------------------
# running

_case_no = [0]


def run_harness(cmd, lines, timeout=600):
    """Run harness <cmd> on the given JSON-able inputs (one per line, passed
    in a file: the harness's stdin stays empty because the VM's READ
    instruction reads it).  Returns the list of JSON outputs.  If the harness
    stops after a hang (exit 3) it is restarted on the remaining cases."""
    os.makedirs(os.path.join(BUILD, "cases"), exist_ok=True)
    outs = []
    pos = 0
    while pos < len(lines):
        _case_no[0] += 1
        path = os.path.join(BUILD, "cases", "in_%s_%d_%d.jsonl" % (cmd, os.getpid(), _case_no[0]))
        with open(path, "w") as f:
            for l in lines[pos:]:
                f.write(json.dumps(l) + "\n")
        p = subprocess.run([HARNESS, cmd, path], stdin=subprocess.DEVNULL, stdout=subprocess.PIPE,
                           stderr=subprocess.PIPE, timeout=timeout)
        os.unlink(path)
        got = []
        for ln in p.stdout.decode(errors="replace").splitlines():
            ln = ln.strip()
            if ln:
                try:
                    got.append(json.loads(ln))
                except ValueError:
                    raise CheckError("harness %s wrote a non-JSON line: %r" % (cmd, ln[:300]))
        outs.extend(got)
        pos += len(got)
        if p.returncode == 3 and got and got[-1].get("hang"):
            continue
        if p.returncode != 0:
            # the process died (a fatal Go runtime error cannot be recovered): the case it was
            # working on is the culprit; record that and go on with the rest
            err = p.stderr.decode(errors="replace")
            first = err.strip().splitlines()[0] if err.strip() else ""
            crashes = getattr(run_harness, "crashes", 0) + 1
            run_harness.crashes = crashes
            if pos >= len(lines):
                raise CheckError("harness %s exited %d after %d outputs\n%s" % (cmd, p.returncode, len(outs), err[-3000:]))
            outs.append({"crash": True, "results": [{"panic": "process died: " + first[:300], "out": []}],
                         "fatal": first[:300]})
            pos += 1
            if crashes >= 12:
                # enough evidence; do not spend minutes restarting the process for every remaining case
                while pos < len(lines):
                    outs.append({"skipped": True, "results": []})
                    pos += 1
                break
            continue
        break
    return outs


def coqc_file(path, timeout=1800):
    """rc -9 = the evaluator did not finish within the budget"""
    try:
        p = sh(["coqc", "-Q", COQ, "Calc", path], timeout=timeout, check=False, cwd=os.path.dirname(path))
    except subprocess.TimeoutExpired:
        return -9, "", "timeout after %ds" % timeout
    return p.returncode, p.stdout.decode(errors="replace"), p.stderr.decode(errors="replace")


# cases the Coq evaluator could not finish within its budget (list-based model: a program that builds
# very large values or runs for millions of steps is cheap for the Go code and too slow for vm_compute);
# they are NOT compared and are counted in the evidence
MODEL_TIMEOUTS = []


def coq_eval_cases(name, imports, case_terms, checker, shard=400, timeout=1800, keep=False):
    """Evaluate `checker : <case> -> bool` (true = agrees) on every case term
    inside Coq with vm_compute, sharded over the cores.  Returns the sorted
    list of indices of cases for which the checker said false.
    A shard that fails to compile raises CheckError (the model or the case
    syntax is broken, which is a correspondence failure of its own)."""
    cdir = os.path.join(BUILD, "cases")
    os.makedirs(cdir, exist_ok=True)
    for fn in os.listdir(cdir):
        if fn.startswith(name + "_"):
            os.unlink(os.path.join(cdir, fn))
    shards = []
    for si, off in enumerate(range(0, len(case_terms), shard)):
        chunk = case_terms[off:off + shard]
        path = os.path.join(cdir, "%s_%d.v" % (name, si))
        with open(path, "w") as f:
            f.write("From Calc Require Import %s.\n" % " ".join(imports))
            f.write("Open Scope string_scope. Open Scope list_scope. Open Scope Z_scope.\n")
            f.write("Definition cases := [\n")
            f.write(";\n".join("(%d, %s)" % (off + i, t) for i, t in enumerate(chunk)))
            f.write("\n].\n")
            f.write("Definition bad := Eval vm_compute in "
                    "(map fst (filter (fun c => negb (%s (snd c))) cases)).\n" % checker)
            f.write("Print bad.\n")
        shards.append(path)
    bad = []

    def one(path):
        rc, out, err = coqc_file(path, timeout=timeout)
        if rc != 0:
            raise CheckError("model evaluation failed on %s:\n%s" % (os.path.basename(path), (out + err)[-3000:]))
        m = re.search(r"bad\s*=\s*(.*?)\s*:\s*list", out, flags=re.S)
        if not m:
            raise CheckError("cannot parse model output of %s: %s" % (path, out[-500:]))
        return [int(x) for x in re.findall(r"-?\d+", m.group(1))]

    with ThreadPoolExecutor(max_workers=16) as ex:
        for r in ex.map(one, shards):
            bad.extend(r)
    if not keep:
        for path in shards:
            for ext in (".v", ".vo", ".vok", ".vos", ".glob"):
                q = path[:-2] + ext
                if os.path.exists(q):
                    os.unlink(q)
            aux = os.path.join(os.path.dirname(path), "." + os.path.basename(path)[:-2] + ".aux")
            if os.path.exists(aux):
                os.unlink(aux)
    return sorted(bad)


def coq_eval_codes(name, imports, case_terms, fn, shard=50, timeout=900, keep=False, single_timeout=240):
    """Evaluate `fn : <case> -> Z` on every case; return {index: code} for the
    cases whose code is not 0.  A shard that does not finish within `timeout`
    is re-run case by case with `single_timeout` each; cases that still do not
    finish are recorded in MODEL_TIMEOUTS and not compared."""
    cdir = os.path.join(BUILD, "cases")
    os.makedirs(cdir, exist_ok=True)
    for f in os.listdir(cdir):
        if f.startswith(name + "_"):
            os.unlink(os.path.join(cdir, f))

    def write_shard(path, items):
        with open(path, "w") as f:
            f.write("From Calc Require Import %s.\n" % " ".join(imports))
            f.write("Open Scope string_scope. Open Scope list_scope. Open Scope Z_scope.\n")
            f.write("Definition cases := [\n")
            f.write(";\n".join("(%d, %s)" % (i, t) for i, t in items))
            f.write("\n].\n")
            f.write("Definition codes := Eval vm_compute in "
                    "(filter (fun c => negb (snd c =? 0)) (map (fun c => (fst c, %s (snd c))) cases)).\n" % fn)
            f.write("Print codes.\n")

    shards = []
    for si, off in enumerate(range(0, len(case_terms), shard)):
        items = [(off + i, t) for i, t in enumerate(case_terms[off:off + shard])]
        path = os.path.join(cdir, "%s_%d.v" % (name, si))
        write_shard(path, items)
        shards.append((path, items))
    res = {}

    def parse(path, out):
        m = re.search(r"codes\s*=\s*(.*?)\s*:\s*list", out, flags=re.S)
        if not m:
            raise CheckError("cannot parse model output of %s: %s" % (path, out[-500:]))
        nums = [int(x) for x in re.findall(r"-?\d+", m.group(1))]
        return list(zip(nums[0::2], nums[1::2]))

    def one(sh_):
        path, items = sh_
        rc, out, err = coqc_file(path, timeout=timeout)
        if rc == -9 and len(items) > 1:
            return ("slow", items)
        if rc == -9:
            MODEL_TIMEOUTS.append((name, items[0][0]))
            return ("ok", [])
        if rc != 0:
            raise CheckError("model evaluation failed on %s:\n%s" % (os.path.basename(path), (out + err)[-3000:]))
        return ("ok", parse(path, out))

    slow = []
    with ThreadPoolExecutor(max_workers=16) as ex:
        for kind, r in ex.map(one, shards):
            if kind == "slow":
                slow.extend(r)
            else:
                for i, c in r:
                    res[i] = c
    if slow:
        singles = []
        for i, t in slow:
            path = os.path.join(cdir, "%s_s%d.v" % (name, i))
            write_shard(path, [(i, t)])
            singles.append((path, [(i, t)]))
        shards.extend(singles)
        old, timeout = timeout, single_timeout
        try:
            with ThreadPoolExecutor(max_workers=16) as ex:
                for kind, r in ex.map(one, singles):
                    for i, c in r:
                        res[i] = c
        finally:
            timeout = old
    shards = [p for p, _ in shards]
    if not keep:
        for path in shards:
            for ext in (".v", ".vo", ".vok", ".vos", ".glob"):
                q = path[:-2] + ext
                if os.path.exists(q):
                    os.unlink(q)
            aux = os.path.join(os.path.dirname(path), "." + os.path.basename(path)[:-2] + ".aux")
            if os.path.exists(aux):
                os.unlink(aux)
    return res


def coq_eval_terms(name, imports, terms, timeout=600):
    """Evaluate arbitrary terms and return Coq's printed output per term (for
    replay files: what the model computed on a disagreeing case)."""
    cdir = os.path.join(BUILD, "cases")
    os.makedirs(cdir, exist_ok=True)
    path = os.path.join(cdir, "%s_detail.v" % name)
    with open(path, "w") as f:
        f.write("From Calc Require Import %s.\n" % " ".join(imports))
        f.write("Open Scope string_scope. Open Scope list_scope. Open Scope Z_scope.\n")
        for i, t in enumerate(terms):
            f.write("Definition d%d := Eval vm_compute in (%s).\nPrint d%d.\n" % (i, t, i))
    rc, out, err = coqc_file(path, timeout=timeout)
    res = []
    if rc != 0:
        return ["<model evaluation failed: %s>" % (out + err)[-800:]] * len(terms)
    parts = re.split(r"^d\d+\s*=\s*", out, flags=re.M)[1:]
    for p in parts:
        res.append(re.sub(r"\s+", " ", p).strip()[:4000])
    while len(res) < len(terms):
        res.append("<no output>")
    return res


# --------------------------------------------------------------------------
# theorem audit

def audit_theorems(prop, module, theorems):
    """Print Assumptions for every listed theorem of the property module.
    Returns (obligations, discharged, axioms_by_theorem, problems).  The
    module is Required but not Imported so that every axiom is printed with
    its qualified name."""
    adir = os.path.join(BUILD, "audit")
    os.makedirs(adir, exist_ok=True)
    path = os.path.join(adir, "Audit_%s.v" % prop)
    with open(path, "w") as f:
        f.write("Require Import Coq.Strings.String.\nFrom Calc Require %s.\n" % module)
        for t in theorems:
            f.write('Eval compute in ("@@BEGIN %s")%%string.\n' % t)
            f.write('Print Assumptions Calc.%s.%s.\n' % (module, t))
        f.write('Eval compute in ("@@END")%string.\n')
    rc, out, err = coqc_file(path, timeout=900)
    problems = []
    axioms = {}
    if rc != 0:
        problems.append("audit of %s does not compile (a theorem is missing or its proof is broken): %s"
                        % (module, (out + err)[-1500:]))
        return len(theorems), 0, axioms, problems
    chunks = re.split(r'=\s*"@@(?:BEGIN |END)', out)
    found = {}
    for ch in chunks[1:]:
        m = re.match(r'([\w\']+)"', ch)
        if m:
            found[m.group(1)] = ch
    discharged = 0
    for t in theorems:
        block = found.get(t)
        if block is None:
            problems.append("theorem %s not found in audit output" % t)
            continue
        if "Closed under the global context" in block:
            axioms[t] = []
            discharged += 1
            continue
        body = block.split("Axioms:", 1)[1] if "Axioms:" in block else ""
        names = re.findall(r"^([A-Za-z_][\w.']*)\s*:", body, flags=re.M)
        axioms[t] = names
        notallowed = [n for n in names if not n.startswith(ALLOWED_AXIOMS_PREFIX)]
        if notallowed or not names:
            problems.append("theorem %s depends on assumptions that are not allowed: %s" % (t, ", ".join(notallowed) or block[:300]))
        else:
            discharged += 1
    return len(theorems), discharged, axioms, problems


# --------------------------------------------------------------------------
# findings, evidence, verdicts

def load_findings():
    path = os.path.join(VERIF, "known_findings.json")
    if not os.path.exists(path):
        return {"open": [], "fixed": []}
    with open(path) as f:
        return json.load(f)


def open_findings(prop):
    return [e for e in load_findings().get("open", []) if prop in e.get("properties", [])]


def write_replay(prop, payload):
    rdir = os.path.join(VERIF, "replays")
    os.makedirs(rdir, exist_ok=True)
    h = hashlib.sha1(json.dumps(payload, sort_keys=True, default=str).encode()).hexdigest()[:10]
    path = os.path.join(rdir, "%s-%s.json" % (prop, h))
    with open(path, "w") as f:
        json.dump(payload, f, indent=1, default=str)
    return path


class Run:
    """One run of one property's check: collects coverage, violations and
    writes the evidence file."""

    def __init__(self, prop, level, tier, seed):
        self.prop = prop
        self.level = level
        self.tier = tier
        self.seed = seed
        self.t0 = time.time()
        self.cov = {}
        self.assumptions = []
        self.violations = []   # (kind, replay path, no_input flag)
        self.known = []
        self.notes = []
        global CURRENT
        CURRENT = self

    def violation(self, payload, no_failing_input=False):
        payload = dict(payload)
        payload.setdefault("property", self.prop)
        payload.setdefault("seed", self.seed)
        payload.setdefault("tier", self.tier)
        path = write_replay(self.prop, payload)
        self.violations.append((path, no_failing_input))
        return path

    def known_finding(self, what):
        self.known.append(what)

    def finish(self):
        wall = time.time() - self.t0
        if MODEL_TIMEOUTS:
            self.cov["model_evaluation_timeouts"] = len(MODEL_TIMEOUTS)
            self.assumptions = list(self.assumptions) + [
                "%d generated case(s) were run on the real code but NOT compared with the Coq model: vm_compute did not "
                "finish them within the per-case budget (the list-based model is slow on programs that build very large "
                "values or run millions of steps)" % len(MODEL_TIMEOUTS)]
        ev = {
            "property_id": self.prop,
            "tier": self.tier,
            "seed": self.seed,
            "level": self.level,
            "coverage": self.cov,
            "assumptions": self.assumptions,
            "wall_s": round(wall, 2),
            "violations": len(self.violations),
        }
        os.makedirs(os.path.join(VERIF, "evidence"), exist_ok=True)
        with open(os.path.join(VERIF, "evidence", "%s.json" % self.prop), "w") as f:
            json.dump(ev, f, indent=1, default=str)
        for what in self.known:
            print("KNOWN-FINDING: property=%s %s" % (self.prop, what))
        seen = set()
        concrete = [p for p, noinp in self.violations if not noinp]
        broken = [p for p, noinp in self.violations if noinp]
        if concrete and broken:
            # a proof obligation or correspondence broke AND the search found a failing input: the
            # input is the replay; the broken obligations are recorded inside it
            texts = []
            for bp in broken:
                try:
                    texts.append(json.load(open(bp)).get("broken", ""))
                except Exception:
                    pass
            for cp in set(concrete):
                try:
                    d = json.load(open(cp))
                    d["broken_obligations"] = texts
                    json.dump(d, open(cp, "w"), indent=1, default=str)
                except Exception:
                    pass
        for path, noinp in self.violations:
            if path in seen or (noinp and concrete):
                continue
            seen.add(path)
            line = "VIOLATION property=%s replay=%s" % (self.prop, path)
            if noinp:
                line += " no-failing-input-found"
            print(line)
        sys.stdout.flush()
        return 1 if self.violations else 0


def distinct_count(items):
    return len({hashlib.sha1(json.dumps(i, sort_keys=True, default=str).encode()).digest() for i in items})


TRUSTED_BASE = [
    "Coq 8.16.1 kernel and its vm_compute evaluator (no native_compute)",
    "Coq standard library (ZArith, Lists, Strings, Floats); no axioms declared by this development",
    "the hand-written Gallina model of the listed Go functions, tied to /repo by the correspondence runs of this check",
    "the Go harness (/verif/harness, built with -tags verif against /repo) and this Python driver transmit cases and results unchanged",
    "the translator (harness `consts`/`builtins` + tools/gen_consts.py): it reads constants, operator tables and built-in trees "
    "from the source and writes them as Coq definitions; coq/CheckConsts.v proves the models use exactly those",
]
