"""Running calc sessions through the harness and turning the results into
Coq case terms."""
import vlib


def run_sessions(sessions, want_cs=False, nostck=False, timeout_ms=4000):
    cases = [{"stmts": s, "want_cs": want_cs, "nostck": nostck, "timeout_ms": timeout_ms} for s in sessions]
    return vlib.run_harness("session", cases, timeout=3600)


def zlist(xs):
    return "[" + ";".join(str(x) for x in xs) + "]"


def compile_case_term(res):
    """the statements of a session that Go parsed and compiled, as a Coq list of
    (ast, resolved, cs, ds)"""
    items = []
    for st in res.get("results", []):
        if st.get("parse_err") or st.get("panic") or st.get("compile_err"):
            if st.get("panic") or st.get("compile_err"):
                break
            continue
        # only single-tree inputs carry a per-tree CS split; multi-tree inputs are skipped as a whole
        if len(st.get("asts", [])) != 1:
            break
        items.append("(%s, %s, %s, [%s])" % (st["asts"][0], st["resolved"][0], zlist(st.get("cs") or []),
                                              ";".join(st.get("ds") or [])))
    return "[" + ";\n ".join(items) + "]"


ERRCTOR = {"nil": "ErrNil", "type": "ErrType", "zerodiv": "ErrZeroDiv", "index": "ErrIndex",
           "arity": "ErrArity", "conversion": "ErrConversion", "read": "ErrRead"}


def bytes_term(bs):
    """a Coq string term for a list of byte values"""
    if all(32 <= b <= 126 and b != 34 for b in bs):
        return '"' + "".join(chr(b) for b in bs) + '"'
    return "(sb [" + ";".join(str(b) for b in bs) + "])"


def session_case_term(res):
    """Coq term (list ginput) for one session as the Go implementation ran it.
    Parse errors contribute nothing (no code is run); a compile error is a
    refused tree; a panic ends the session."""
    items = []
    for st in res.get("results", []):
        if st.get("parse_err"):
            continue
        trees = st.get("asts", [])
        gres = []
        vals, errs = st.get("vals", []), st.get("errs", [])
        for i in range(len(trees)):
            if i < len(errs):
                if errs[i] == "none":
                    gres.append("(GValue %s)" % vals[i])
                elif errs[i] in ERRCTOR:
                    gres.append("(GError %s)" % ERRCTOR[errs[i]])
                else:
                    gres.append("GPanic")
            elif st.get("compile_err") and i == len(errs):
                gres.append("GRefused")
            elif st.get("panic") and i == len(errs):
                gres.append("GPanic")
        trees = trees[:len(gres)]
        items.append("{| g_trees := [%s]; g_results := [%s]; g_out := %s; g_counters := [%s]; g_reports := [%s] |}" % (
            ";".join(trees), ";".join(gres), bytes_term(st.get("out", [])),
            ";".join(str(c) for c in (st.get("counters") or [])),
            ";".join((st.get("reports") or [])[:len(gres)])))
        if st.get("panic"):
            break
    if res.get("hang") and res.get("inflight"):
        trees = res["inflight"]
        items.append("{| g_trees := [%s]; g_results := [%s]; g_out := \"\"; g_counters := []; g_reports := [] |}" % (
            ";".join(trees), ";".join(["GValue VNil"] * (len(trees) - 1) + ["GHang"])))
    if not items:
        return "(@nil ginput)"
    return "[" + ";\n ".join(items) + "]"


SESSION_IMPORTS = ["Base", "Bytecode", "Value", "FloatText", "Ast", "Resolve", "Compile", "VM", "Session", "CorrSession"]
